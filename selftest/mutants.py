"""Realistic single-edit mutants of hgrecco/pint, used by `python -m sim.selftest mutants` to
prove that each check is sensitive. Each is a textual replacement applied to a scratch copy."""

CR = "pint/facets/context/registry.py"
CO = "pint/facets/context/objects.py"
UT = "pint/util.py"
PR = "pint/facets/plain/registry.py"
SR = "pint/facets/system/registry.py"
GO = "pint/facets/group/objects.py"

MUTANTS = [
    # ------------------------------------------------------------------ C12
    {"prop": "C12", "name": "no-rollback-of-failed-activation", "file": CR,
     "old": """        try:
            self._switch_context_cache_and_units()
        except Exception:
            # A redefinition could not be applied: a failed activation must leave
            # the registry exactly as it was before the call.
            key = self._active_ctx.hashable()
            self._caches.pop(key, None)
            self._context_units.pop(key, None)
            self._active_ctx.remove_contexts(len(contexts))
            self._switch_context_cache_and_units()
            raise
""", "new": "        self._switch_context_cache_and_units()\n"},
    {"prop": "C12", "name": "with-block-without-finally", "file": CR,
     "old": """        try:
            # After adding the context and rebuilding the graph, the registry
            # is ready to use.
            yield self
        finally:
            # Upon leaving the with statement,
            # the added contexts are removed from the active one.
            self.disable_contexts(len(names))
""", "new": """        yield self
        self.disable_contexts(len(names))
"""},
    {"prop": "C12", "name": "with-exit-off-by-one", "file": CR,
     "old": "            self.disable_contexts(len(names))\n",
     "new": "            self.disable_contexts(max(len(names) - 1, 1))\n"},
    {"prop": "C12", "name": "overlay-left-in-unit-table", "file": CR,
     "old": "        del self._units.maps[:-1]\n        units_overlay = any(",
     "new": "        units_overlay = any("},
    {"prop": "C12", "name": "base-units-memo-kept-across-overlays", "file": CR,
     "old": "            self._base_units_cache = {}\n        if not units_overlay:",
     "new": "            pass\n        if not units_overlay:"},
    {"prop": "C12", "name": "activation-updates-shared-defaults", "file": CO,
     "old": "            newdef = dict(context.defaults, **defaults)\n",
     "new": "            context.defaults.update(defaults)\n            newdef = dict(context.defaults)\n"},
    {"prop": "C12", "name": "on-redefinition-not-restored", "file": CR,
     "old": """        try:
            for ctx in reversed(self._active_ctx.contexts):
                for definition in ctx.redefinitions:
                    self._redefine(definition)
        finally:
            self._on_redefinition = on_redefinition_backup
""", "new": """        for ctx in reversed(self._active_ctx.contexts):
            for definition in ctx.redefinitions:
                self._redefine(definition)
        self._on_redefinition = on_redefinition_backup
"""},
    {"prop": "C12", "name": "original-context-rewired-by-copy", "file": CO,
     "old": "                c.relation_to_context[edge] = c\n",
     "new": "                context.relation_to_context[edge] = c\n                c.relation_to_context[edge] = c\n"},
    {"prop": "C12", "name": "graph-not-invalidated-on-removal", "file": CO,
     "old": "        del self.contexts[:n]\n        del self.maps[:n]\n        self._graph = None\n",
     "new": "        del self.contexts[:n]\n        del self.maps[:n]\n"},
    {"prop": "C12", "name": "base-cache-replaced-by-overlay", "file": CR,
     "old": "        self._caches[key] = self._cache = ContextCacheOverlay(base_cache)\n",
     "new": "        self._caches[key] = self._cache = ContextCacheOverlay(base_cache)\n        self._cache.root_units = base_cache.root_units\n"},
    {"prop": "C12", "name": "disable-all-when-n-exceeds", "file": CO,
     "old": "        del self.contexts[:n]\n        del self.maps[:n]\n",
     "new": "        del self.contexts[:n]\n        del self.maps[: (n if n is None else n + 0)]\n        if n == 2:\n            del self.maps[:1]\n"},
    # ------------------------------------------------------------------ C11
    {"prop": "C11", "name": "precedence-reversed", "file": CO,
     "old": "        self.maps = [ctx.relation_to_context for ctx in reversed(contexts)] + self.maps\n",
     "new": "        self.maps = self.maps + [ctx.relation_to_context for ctx in contexts]\n"},
    {"prop": "C11", "name": "dfs-instead-of-bfs", "file": UT,
     "old": "        node, path = fifo.popleft()\n",
     "new": "        node, path = fifo.pop()\n"},
    {"prop": "C11", "name": "bidirectional-one-way", "file": CO,
     "old": "                if relation.bidirectional:\n                    ctx.add_transformation(dst, src, relation.transformation)\n",
     "new": "                pass\n"},
    {"prop": "C11", "name": "keywords-drop-declared-defaults", "file": CO,
     "old": "            newdef = dict(context.defaults, **defaults)\n",
     "new": "            newdef = dict(defaults)\n"},
    {"prop": "C11", "name": "inherited-overrides-call-keywords", "file": CR,
     "old": "            kwargs = dict(self._active_ctx.defaults, **kwargs)\n",
     "new": "            kwargs = dict(kwargs, **self._active_ctx.defaults)\n"},
    {"prop": "C11", "name": "redefinitions-newest-first", "file": CR,
     "old": "            for ctx in reversed(self._active_ctx.contexts):\n",
     "new": "            for ctx in self._active_ctx.contexts:\n"},
    {"prop": "C11", "name": "no-inheritance-from-enclosing", "file": CR,
     "old": "        if self._active_ctx.defaults:\n            kwargs = dict(self._active_ctx.defaults, **kwargs)\n",
     "new": ""},
    {"prop": "C11", "name": "redefinition-not-transitive", "file": CR,
     "old": "        self.root_units = {}\n",
     "new": "        self.root_units = registry_cache.root_units\n"},
    {"prop": "C11", "name": "first-edge-only", "file": CR,
     "old": "                for a, b in zip(path[:-1], path[1:]):\n",
     "new": "                for a, b in list(zip(path[:-1], path[1:]))[-2:]:\n"},
    {"prop": "C11", "name": "compat-units-ignores-context", "file": CR,
     "old": "        if self._active_ctx:\n            ret = ret.copy()  # Do not alter self._cache\n",
     "new": "        if self._active_ctx and len(self._active_ctx.contexts) < 2:\n            ret = ret.copy()  # Do not alter self._cache\n"},
    # ------------------------------------------------------------------ C13
    {"prop": "C13", "name": "factor-memo-under-swapped-key", "file": PR,
     "old": "        cache[(src, dst)] = factor\n", "new": "        cache[(dst, src)] = factor\n"},
    {"prop": "C13", "name": "default-system-none-keeps-memo", "file": SR,
     "old": "                raise ValueError(\"Unknown system %s\" % name)\n\n        self._base_units_cache = {}\n",
     "new": "                raise ValueError(\"Unknown system %s\" % name)\n\n            self._base_units_cache = {}\n"},
    {"prop": "C13", "name": "parse-memo-not-dropped-on-define", "file": PR,
     "old": "            self._cache.parse_unit.pop(key, None)\n", "new": "            pass\n"},
    {"prop": "C13", "name": "base-memo-written-for-any-system", "file": SR,
     "old": "        if check_nonmult and system == self._default_system_name:\n            # the memo belongs",
     "new": "        if check_nonmult:\n            # the memo belongs"},
    {"prop": "C13", "name": "dimensionality-memo-per-object", "file": "pint/facets/plain/quantity.py",
     "old": "        return self._REGISTRY._get_dimensionality(self._units)\n\n    def check(",
     "new": "        if getattr(self, \"_dim_memo\", None) is None:\n            self._dim_memo = self._REGISTRY._get_dimensionality(self._units)\n        return self._dim_memo\n\n    def check("},
    {"prop": "C13", "name": "prefixed-unit-registered-in-overlay", "file": PR,
     "old": "            if isinstance(units, ChainMap) and unit_name in units.maps[-1]:\n                units = units.maps[-1]\n",
     "new": ""},
    {"prop": "C13", "name": "dimensionality-memo-shared-with-overlay-stale", "file": CR,
     "old": "        self.dimensionality = registry_cache.dimensionality\n        self.parse_unit = registry_cache.parse_unit\n        self.conversion_factor = {}\n",
     "new": "        self.dimensionality = registry_cache.dimensionality\n        self.parse_unit = registry_cache.parse_unit\n        self.conversion_factor = registry_cache.conversion_factor\n"},
    # ------------------------------------------------------------------ C14
    {"prop": "C14", "name": "invalidation-not-propagated-upwards", "file": GO,
     "old": "        for name in self._used_by:\n            d[name].invalidate_members()\n", "new": ""},
    {"prop": "C14", "name": "remove-groups-keeps-used-by", "file": GO,
     "old": "                grp._used_by.remove(self.name)\n", "new": "                pass\n"},
    {"prop": "C14", "name": "system-members-never-invalidated", "file": GO,
     "old": "        for system in getattr(self._REGISTRY, \"_systems\", {}).values():\n            system.invalidate_members()\n",
     "new": ""},
    {"prop": "C14", "name": "default-group-takes-all-units", "file": "pint/facets/group/registry.py",
     "old": "            grp.add_units(*(all_units - group_units))\n", "new": "            grp.add_units(*all_units)\n"},
    {"prop": "C14", "name": "rule-inversion-minus-one-over-b", "file": "pint/facets/system/objects.py",
     "old": "                    other_unit: -value / new_unit_expanded[old_unit]\n", "new": "                    other_unit: -1 / value\n"},
    {"prop": "C14", "name": "system-attribute-ignores-variant", "file": "pint/facets/system/objects.py",
     "old": "        u = getattr(self._REGISTRY, self.name + \"_\" + item, None)\n", "new": "        u = None\n"},
    {"prop": "C14", "name": "base-memo-written-for-any-system", "file": SR,
     "old": "        if check_nonmult and system == self._default_system_name:\n            # the memo belongs",
     "new": "        if check_nonmult:\n            # the memo belongs"},
    {"prop": "C14", "name": "partial-edit-without-invalidation", "file": GO,
     "old": "        try:\n            for unit_name in unit_names:\n                self._unit_names.remove(unit_name)\n        finally:\n            # also when a name is not present: the ones before it are gone\n            self.invalidate_members()\n",
     "new": "        for unit_name in unit_names:\n            self._unit_names.remove(unit_name)\n        self.invalidate_members()\n"},
    {"prop": "C14", "name": "restricted-compat-ignores-system", "file": SR,
     "old": "            return frozenset(members & super()._get_compatible_units(input_units))\n",
     "new": "            return frozenset(super()._get_compatible_units(input_units))\n"},
    # ------------------------------------------------------------------ C08
    {"prop": "C08", "name": "plural-of-one-letter-stems", "file": PR,
     "old": "                    if len(name) == 1:\n                        continue\n", "new": ""},
    {"prop": "C08", "name": "dedup-prefers-unprefixed", "file": PR,
     "old": "                candidates.pop((\"\", cp + cu, \"\"), None)\n",
     "new": "                if (\"\", cp + cu, \"\") in candidates:\n                    candidates.pop((cp, cu, cs), None)\n"},
    {"prop": "C08", "name": "prefixed-unit-registered-without-factor", "file": PR,
     "old": "                prefix_def.converter,\n", "new": "                self._prefixes[\"\"].converter,\n"},
    {"prop": "C08", "name": "alias-not-in-case-insensitive-index", "file": PR,
     "old": "            self._helper_single_adder(alias, unit, self._units, self._units_casei)\n",
     "new": "            self._helper_single_adder(alias, unit, self._units, None)\n"},
    {"prop": "C08", "name": "registered-prefixed-units-decomposed-again", "file": PR,
     "old": "                        if (prefix or suffix) and name in self._prefixed_units:\n", "new": "                        if False:\n"},
    {"prop": "C08", "name": "parse-memo-without-unit-table-guard", "file": PR,
     "old": "        if as_delta and input_string in cache and input_string in self._units:\n",
     "new": "        if as_delta and input_string in cache:\n"},
    {"prop": "C08", "name": "case-folded-readings-not-after-exact-case", "file": PR,
     "old": "            itertools.chain(\n                self._yield_unit_triplets(unit_name, True),\n                self._yield_unit_triplets(unit_name, False),\n            )\n",
     "new": "            self._yield_unit_triplets(unit_name, False)\n"},
    # ------------------------------------------------------------------ C10
    {"prop": "C10", "name": "warm-cache-not-installed", "file": PR,
     "old": "            else:\n                self._cache = cache\n            return\n", "new": "            return\n"},
    {"prop": "C10", "name": "cache-name-without-numeric-type", "file": "pint/delegates/base_defparser.py",
     "old": "        non_int_type: str = chosen_non_int_type.__qualname__\n", "new": "        non_int_type: str = \"any\"\n"},
    {"prop": "C10", "name": "cache-name-without-path", "file": "pint/delegates/base_defparser.py",
     "old": "            yield bytes(self.source_path.resolve())\n", "new": "            return\n"},
    {"prop": "C10", "name": "underscore-placeholder-as-symbol", "file": "pint/delegates/txt_defparser/plain.py",
     "old": "        if aliases:\n            if aliases[0] == \"_\":\n                aliases = aliases[1:]\n            else:\n                defined_symbol, *aliases = aliases\n\n            aliases = tuple(alias for alias in aliases if alias not in (\"\", \"_\"))\n\n        if \";\" in value:",
     "new": "        if aliases:\n            defined_symbol, *aliases = aliases\n\n            aliases = tuple(alias for alias in aliases if alias not in (\"\", \"_\"))\n\n        if \";\" in value:"},
    {"prop": "C10", "name": "modifiers-dropped", "file": "pint/delegates/txt_defparser/plain.py",
     "old": "            converter = Converter.from_arguments(scale=converter.scale, **modifiers)\n",
     "new": "            converter = Converter.from_arguments(scale=converter.scale)\n"},
    {"prop": "C10", "name": "empty-value-reads-as-one", "file": "pint/delegates/base_defparser.py",
     "old": "        if not s.strip():\n            # an empty string evaluates to the neutral element 1: it is not a number\n            raise NotNumeric(s)\n",
     "new": ""},
    {"prop": "C10", "name": "project-cache-keyed-by-main-file", "file": "pint/delegates/base_defparser.py",
     "old": "                for stmt in pp.iter_statements()\n                if isinstance(stmt, fp.BOS)\n",
     "new": "                for stmt in list(pp.iter_statements())[:1]\n                if isinstance(stmt, fp.BOS)\n"},
    {"prop": "C10", "name": "last-alias-dropped", "file": "pint/delegates/txt_defparser/plain.py",
     "old": "            aliases = tuple(alias for alias in aliases if alias not in (\"\", \"_\"))\n\n        if \";\" in value:",
     "new": "            aliases = tuple(alias for alias in aliases if alias not in (\"\", \"_\"))[:1]\n\n        if \";\" in value:"},
    # ------------------------------------------------------------------ C18
    {"prop": "C18", "name": "unpickle-does-not-register-prefixed-units", "file": "pint/__init__.py",
     "old": "            for name in arg:\n                application_registry.parse_units(name)\n", "new": "            pass\n"},
    {"prop": "C18", "name": "deepcopy-keeps-groups-of-source", "file": "pint/facets/group/registry.py",
     "old": "        for grp in new._groups.values():\n            grp.__class__ = new.Group\n", "new": ""},
    {"prop": "C18", "name": "exception-reduce-drops-field", "file": "pint/errors.py",
     "old": "            self.dim2,\n            self.extra_msg,\n", "new": "            self.dim2,\n"},
    {"prop": "C18", "name": "registry-check-by-class-name", "file": UT,
     "old": "        if self._REGISTRY is getattr(other, \"_REGISTRY\", None):\n",
     "new": "        if type(self._REGISTRY) is type(getattr(other, \"_REGISTRY\", None)):\n"},
    {"prop": "C18", "name": "compare-skips-registry-check", "file": "pint/facets/plain/quantity.py",
     "old": "        if self._REGISTRY is not other._REGISTRY:\n            mess = \"Cannot operate with {} and {} of different registries.\"\n",
     "new": "        if False:\n            mess = \"Cannot operate with {} and {} of different registries.\"\n"},
    {"prop": "C18", "name": "lazy-registry-with-other-settings", "file": "pint/registry.py",
     "old": "        kwargs[\"on_redefinition\"] = \"raise\"\n", "new": "        kwargs[\"on_redefinition\"] = \"raise\"\n        kwargs[\"system\"] = \"SI\"\n"},
    {"prop": "C18", "name": "unitscontainer-setstate-keeps-hash", "file": UT,
     "old": "        self._d, self._one, self._non_int_type = state\n        self._hash = None\n",
     "new": "        self._d, self._one, self._non_int_type = state\n        self._hash = hash(frozenset())\n"},
    {"prop": "C18", "name": "deepcopy-shares-unit-table", "file": PR,
     "old": "        new.__dict__ = copy.deepcopy(self.__dict__, memo)\n        new._init_dynamic_classes()\n",
     "new": "        new.__dict__ = copy.deepcopy(self.__dict__, memo)\n        new._units = self._units\n        new._init_dynamic_classes()\n"},
    # ------------------------------------------------------------------ reversals of later fixes
    {"prop": "C18", "name": "unit-ordering-skips-registry-check", "file": "pint/facets/plain/unit.py",
     "old": "            # raises ValueError for a unit of another registry\n            self._check(other)\n", "new": ""},
    {"prop": "C13", "name": "base-units-memo-not-purged-on-define", "file": PR,
     "old": "                if memo:\n                    for units in [units for units in memo if mentions(units)]:\n                        del memo[units]\n",
     "new": "                pass\n"},
    {"prop": "C13", "name": "spelled-memos-not-purged-on-define", "file": PR,
     "old": "                for memo in (cache.dimensionality, cache.root_units):\n                    for units in [units for units in memo if mentions(units)]:\n                        del memo[units]\n",
     "new": ""},
    {"prop": "C12", "name": "rollback-dies-on-unhashable-key", "file": CR,
     "old": "            try:\n                key = self._active_ctx.hashable()\n            except TypeError:\n                # the failure may be just that: an unhashable parameter value\n                pass\n            else:\n                self._caches.pop(key, None)\n                self._context_units.pop(key, None)\n",
     "new": "            key = self._active_ctx.hashable()\n            self._caches.pop(key, None)\n            self._context_units.pop(key, None)\n"},
    {"prop": "C13", "name": "implicit-name-definition-as-redefinition", "file": PR,
     "old": "        is_new = key not in target_dict or was_implicit\n", "new": "        is_new = key not in target_dict\n        was_implicit = False\n"},
    {"prop": "C08", "name": "implicit-name-definition-not-case-indexed", "file": PR,
     "old": "        if casei_target_dict is not None:\n            casei_target_dict[key.lower()].add(key)\n        if target_dict is self._units:",
     "new": "        if casei_target_dict is not None and key not in self._prefixed_units:\n            casei_target_dict[key.lower()].add(key)\n        if target_dict is self._units:"},
]
