"""Realistic single-edit mutants of hgrecco/pint, used by `python -m sim.selftest mutants` to
prove that each check is sensitive. Each is a textual replacement applied to a scratch copy."""

CR = "pint/facets/context/registry.py"
CO = "pint/facets/context/objects.py"
UT = "pint/util.py"

MUTANTS = [
    # ------------------------------------------------------------------ C12
    {"prop": "C12", "name": "no-rollback-of-failed-activation", "file": CR,
     "old": """        try:
            self._switch_context_cache_and_units()
        except Exception:
            # A redefinition could not be applied: a failed activation must leave
            # the registry exactly as it was before the call.
            key = self._active_ctx.hashable()
            self._caches.pop(key, None)
            self._context_units.pop(key, None)
            self._active_ctx.remove_contexts(len(contexts))
            self._switch_context_cache_and_units()
            raise
""", "new": "        self._switch_context_cache_and_units()\n"},
    {"prop": "C12", "name": "with-block-without-finally", "file": CR,
     "old": """        try:
            # After adding the context and rebuilding the graph, the registry
            # is ready to use.
            yield self
        finally:
            # Upon leaving the with statement,
            # the added contexts are removed from the active one.
            self.disable_contexts(len(names))
""", "new": """        yield self
        self.disable_contexts(len(names))
"""},
    {"prop": "C12", "name": "with-exit-off-by-one", "file": CR,
     "old": "            self.disable_contexts(len(names))\n",
     "new": "            self.disable_contexts(max(len(names) - 1, 1))\n"},
    {"prop": "C12", "name": "overlay-left-in-unit-table", "file": CR,
     "old": "        del self._units.maps[:-1]\n        units_overlay = any(",
     "new": "        units_overlay = any("},
    {"prop": "C12", "name": "base-units-memo-kept-across-overlays", "file": CR,
     "old": "            self._base_units_cache = {}\n        if not units_overlay:",
     "new": "            pass\n        if not units_overlay:"},
    {"prop": "C12", "name": "activation-updates-shared-defaults", "file": CO,
     "old": "            newdef = dict(context.defaults, **defaults)\n",
     "new": "            context.defaults.update(defaults)\n            newdef = dict(context.defaults)\n"},
    {"prop": "C12", "name": "on-redefinition-not-restored", "file": CR,
     "old": """        try:
            for ctx in reversed(self._active_ctx.contexts):
                for definition in ctx.redefinitions:
                    self._redefine(definition)
        finally:
            self._on_redefinition = on_redefinition_backup
""", "new": """        for ctx in reversed(self._active_ctx.contexts):
            for definition in ctx.redefinitions:
                self._redefine(definition)
        self._on_redefinition = on_redefinition_backup
"""},
    {"prop": "C12", "name": "original-context-rewired-by-copy", "file": CO,
     "old": "                c.relation_to_context[edge] = c\n",
     "new": "                context.relation_to_context[edge] = c\n                c.relation_to_context[edge] = c\n"},
    {"prop": "C12", "name": "graph-not-invalidated-on-removal", "file": CO,
     "old": "        del self.contexts[:n]\n        del self.maps[:n]\n        self._graph = None\n",
     "new": "        del self.contexts[:n]\n        del self.maps[:n]\n"},
    {"prop": "C12", "name": "base-cache-replaced-by-overlay", "file": CR,
     "old": "        self._caches[key] = self._cache = ContextCacheOverlay(base_cache)\n",
     "new": "        self._caches[key] = self._cache = ContextCacheOverlay(base_cache)\n        self._cache.root_units = base_cache.root_units\n"},
    {"prop": "C12", "name": "disable-all-when-n-exceeds", "file": CO,
     "old": "        del self.contexts[:n]\n        del self.maps[:n]\n",
     "new": "        del self.contexts[:n]\n        del self.maps[: (n if n is None else n + 0)]\n        if n == 2:\n            del self.maps[:1]\n"},
    # ------------------------------------------------------------------ C11
    {"prop": "C11", "name": "precedence-reversed", "file": CO,
     "old": "        self.maps = [ctx.relation_to_context for ctx in reversed(contexts)] + self.maps\n",
     "new": "        self.maps = self.maps + [ctx.relation_to_context for ctx in contexts]\n"},
    {"prop": "C11", "name": "dfs-instead-of-bfs", "file": UT,
     "old": "        node, path = fifo.popleft()\n",
     "new": "        node, path = fifo.pop()\n"},
    {"prop": "C11", "name": "bidirectional-one-way", "file": CO,
     "old": "                if relation.bidirectional:\n                    ctx.add_transformation(dst, src, relation.transformation)\n",
     "new": "                pass\n"},
    {"prop": "C11", "name": "keywords-drop-declared-defaults", "file": CO,
     "old": "            newdef = dict(context.defaults, **defaults)\n",
     "new": "            newdef = dict(defaults)\n"},
    {"prop": "C11", "name": "inherited-overrides-call-keywords", "file": CR,
     "old": "            kwargs = dict(self._active_ctx.defaults, **kwargs)\n",
     "new": "            kwargs = dict(kwargs, **self._active_ctx.defaults)\n"},
    {"prop": "C11", "name": "redefinitions-newest-first", "file": CR,
     "old": "            for ctx in reversed(self._active_ctx.contexts):\n",
     "new": "            for ctx in self._active_ctx.contexts:\n"},
    {"prop": "C11", "name": "no-inheritance-from-enclosing", "file": CR,
     "old": "        if self._active_ctx.defaults:\n            kwargs = dict(self._active_ctx.defaults, **kwargs)\n",
     "new": ""},
    {"prop": "C11", "name": "redefinition-not-transitive", "file": CR,
     "old": "        self.root_units = {}\n",
     "new": "        self.root_units = registry_cache.root_units\n"},
    {"prop": "C11", "name": "first-edge-only", "file": CR,
     "old": "                for a, b in zip(path[:-1], path[1:]):\n",
     "new": "                for a, b in list(zip(path[:-1], path[1:]))[-2:]:\n"},
    {"prop": "C11", "name": "compat-units-ignores-context", "file": CR,
     "old": "        if self._active_ctx:\n            ret = ret.copy()  # Do not alter self._cache\n",
     "new": "        if self._active_ctx and len(self._active_ctx.contexts) < 2:\n            ret = ret.copy()  # Do not alter self._cache\n"},
]
