"""Block worker: a fresh interpreter (own PYTHONHASHSEED) that executes a contiguous block of
seeded runs of one property, minimises what it finds, and prints one JSON result line.

    python -m sim.worker --prop C12 --tier quick --seed 0 --first 0 --runs 200 --out DIR
    python -m sim.worker --replay FILE
"""

from __future__ import annotations

import argparse
import faulthandler
import hashlib
import json
import os
import sys
import time
import traceback

from . import core
from .core import Collector, HarnessError, Log, Streams, derive, minimise
from .worlds import get_world

MAX_VIOLATIONS_PER_BLOCK = 1


def run_one(world, prop, seed, index, tier):
    run_seed = derive(seed, prop, index)
    streams = Streams(run_seed)
    case = world.generate(streams, tier, index)
    case["seed"] = seed
    case["index"] = index
    case["run_seed"] = run_seed
    case["hashseed"] = os.environ.get("PYTHONHASHSEED", "random")
    col = Collector()
    log = Log()
    v = world.run_case(case, col, log)
    return case, col, log, v


def replay_case(world, case, keep=False):
    col = Collector()
    log = Log(keep=keep)
    v = world.run_case(case, col, log)
    return col, log, v


def main(argv=None):
    ap = argparse.ArgumentParser()
    ap.add_argument("--prop")
    ap.add_argument("--tier", default="quick")
    ap.add_argument("--seed", type=int, default=0)
    ap.add_argument("--first", type=int, default=0)
    ap.add_argument("--runs", type=int, default=10)
    ap.add_argument("--out", default=None)
    ap.add_argument("--replay", default=None)
    ap.add_argument("--digests", action="store_true", help="include per-run digests in the result")
    ap.add_argument("--wall", type=float, default=0.0, help="stop starting new runs after this many seconds")
    ap.add_argument("--samples", type=int, default=0)
    a = ap.parse_args(argv)
    faulthandler.enable()

    if a.replay:
        case = json.load(open(a.replay))
        prop = case["prop"]
        world = get_world(prop)
        inner = case.get("case", case)
        col, log, v = replay_case(world, inner, keep=True)
        out = {"prop": prop, "violation": v.to_json() if v else None, "digest": log.digest(),
               "hashseed": os.environ.get("PYTHONHASHSEED")}
        if os.environ.get("VERIF_TRACE"):
            out["log"] = log.lines
        print("RESULT " + json.dumps(out))
        return 0

    prop = a.prop
    world = get_world(prop)
    t0 = time.time()
    total = Collector()
    block_hash = hashlib.sha256()
    digests = []
    violations = []
    samples = []
    harness_errors = []
    nruns = 0
    stop_file = os.path.join(a.out, f"STOP-{prop}-{a.seed}") if a.out else None
    for index in range(a.first, a.first + a.runs):
        if a.wall and time.time() - t0 > a.wall:
            break
        if stop_file and os.path.exists(stop_file):
            break  # enough violations have been recorded by other blocks: the verdict is settled
        faulthandler.dump_traceback_later(120, exit=True)
        try:
            case, col, log, v = run_one(world, prop, a.seed, index, a.tier)
        except HarnessError as e:
            harness_errors.append({"index": index, "error": str(e)[:500], "tb": traceback.format_exc()[-1500:]})
            continue
        except Exception as e:  # anything else escaping a world is a harness defect
            harness_errors.append({"index": index, "error": f"{type(e).__name__}: {e}"[:500],
                                   "tb": traceback.format_exc()[-1500:]})
            continue
        finally:
            faulthandler.cancel_dump_traceback_later()
        nruns += 1
        total.merge(col)
        d = log.digest() + ("!" + v.rule if v else "")
        block_hash.update(f"{index}:{d}\n".encode())
        if a.digests:
            digests.append([index, d])
        if len(samples) < a.samples and col.steps > 0:
            samples.append(world.sample(case) if hasattr(world, "sample") else {"index": index})
        if v is not None and len(violations) < MAX_VIOLATIONS_PER_BLOCK:
            faulthandler.dump_traceback_later(900, exit=True)
            try:
                small, used = minimise(world, case, v.rule, v.sig)
                # the minimised case must fail the same way, twice (determinism in-process)
                c1, l1, v1 = replay_case(world, small)
                c2, l2, v2 = replay_case(world, small)
            finally:
                faulthandler.cancel_dump_traceback_later()
            rec = {"prop": prop, "seed": a.seed, "index": index, "rule": v.rule, "sig": v.sig,
                   "hashseed": case["hashseed"], "minimise_runs": used}
            if v1 is None or v2 is None or v1.rule != v.rule or l1.digest() != l2.digest():
                rec["unstable"] = True
                rec["case"] = case
                rec["violation"] = v.to_json()
                rec["digest"] = log.digest()
            else:
                rec["case"] = small
                rec["violation"] = v1.to_json()
                rec["digest"] = l1.digest()
            if a.out:
                os.makedirs(a.out, exist_ok=True)
                path = os.path.join(a.out, f"{prop}-{a.seed}-{index}.json")
                with open(path, "w") as f:
                    json.dump(rec, f, indent=1, default=core._json_default)
                rec = {k: rec[k] for k in rec if k != "case"}
                rec["path"] = path
            violations.append(rec)
            if stop_file and not a.digests:
                # two confirmed violations anywhere in the batch settle the verdict
                n = len([f for f in os.listdir(a.out) if f.startswith(f"{prop}-{a.seed}-")])
                if n >= 3:
                    open(stop_file, "w").close()
    out = {
        "prop": prop, "first": a.first, "runs": nruns, "wall_s": round(time.time() - t0, 3),
        "block_digest": block_hash.hexdigest()[:24], "collector": total.to_json(),
        "violations": violations, "harness_errors": harness_errors[:5], "n_harness_errors": len(harness_errors),
        "samples": samples, "hashseed": os.environ.get("PYTHONHASHSEED"),
    }
    if a.digests:
        out["digests"] = digests
    print("RESULT " + json.dumps(out, default=core._json_default))
    return 0


if __name__ == "__main__":
    sys.exit(main())
