"""Common machinery of the simulator: seed streams, event log, fault decisions,
seams into pint's memo tables, answer normalisation, generic minimiser.

Nothing here draws from a PRNG or reads a clock while logging.
"""

from __future__ import annotations

import gc
import hashlib
import json
import os
import random
import sys
from fractions import Fraction
from decimal import Decimal

PINT_PATH = os.environ.get("VERIF_PINT_PATH", "/repo")
GUARD = "PINT_VERIF"


# --------------------------------------------------------------------------- pint import
_pint = None


def import_pint():
    """Import pint from the tree under test (default: /repo's working tree)."""
    global _pint
    if _pint is None:
        os.environ[GUARD] = "1"
        if sys.path[0] != PINT_PATH:
            sys.path.insert(0, PINT_PATH)
        import logging

        import pint  # noqa

        got = os.path.realpath(os.path.dirname(os.path.dirname(pint.__file__)))
        want = os.path.realpath(PINT_PATH)
        if got != want:
            raise HarnessError(f"pint imported from {got}, expected {want}")
        # pint logs redefinition / ambiguity warnings; they are not part of any answer
        logging.getLogger("pint").setLevel(logging.CRITICAL)
        logging.getLogger("pint.util").setLevel(logging.CRITICAL)
        import warnings

        warnings.simplefilter("ignore")
        _pint = pint
    return _pint


class HarnessError(Exception):
    """Something wrong with the machinery itself (never reported as a pass or as a violation)."""


class Sentinel(Exception):
    """Raised by simulator-supplied user code on the simulator's command."""


# --------------------------------------------------------------------------- seeds
def derive(*labels) -> int:
    h = hashlib.sha256("/".join(str(x) for x in labels).encode()).digest()
    return int.from_bytes(h[:8], "big")


class Streams:
    """Named PRNG streams derived from one run seed."""

    def __init__(self, run_seed: int):
        self.run_seed = run_seed
        self._s = {}

    def get(self, name: str) -> random.Random:
        r = self._s.get(name)
        if r is None:
            r = self._s[name] = random.Random(derive(self.run_seed, name))
        return r


def unit_float(*labels) -> float:
    """Pure pseudo-random number in [0,1) determined by its labels (no stream state)."""
    return derive(*labels) / 2.0**64


# --------------------------------------------------------------------------- event log
class Log:
    """Append-only event log with a running digest. Keeping the lines is optional."""

    def __init__(self, keep: bool = False):
        self._h = hashlib.sha256()
        self.n = 0
        self.keep = keep
        self.lines = []

    def ev(self, *items):
        s = json.dumps(items, sort_keys=True, default=_json_default, separators=(",", ":"))
        self._h.update(s.encode())
        self._h.update(b"\n")
        self.n += 1
        if self.keep:
            self.lines.append(s)

    def digest(self) -> str:
        return self._h.hexdigest()[:24]


def _json_default(o):
    if isinstance(o, Fraction):
        return f"F{o.numerator}/{o.denominator}"
    if isinstance(o, Decimal):
        return f"D{o}"
    if isinstance(o, (set, frozenset)):
        return sorted(o, key=repr)
    if isinstance(o, tuple):
        return list(o)
    if isinstance(o, type):
        return o.__name__
    return f"<{type(o).__name__}>"


# --------------------------------------------------------------------------- collector
class Collector:
    """What one run (and, merged, one batch) measured."""

    def __init__(self):
        self.steps = 0
        self.faults = {}  # kind -> fired count
        self.probes = {}  # rare-condition probe -> count
        self.transitions = set()  # distinct (abstract state, op kind, outcome)
        self.checks = 0  # oracle evaluations

    def fault(self, kind, n=1):
        self.faults[kind] = self.faults.get(kind, 0) + n

    def probe(self, name, n=1):
        self.probes[name] = self.probes.get(name, 0) + n

    def trans(self, *t):
        self.transitions.add("|".join(str(x) for x in t))

    def merge(self, other: "Collector"):
        self.steps += other.steps
        self.checks += other.checks
        for k, v in other.faults.items():
            self.faults[k] = self.faults.get(k, 0) + v
        for k, v in other.probes.items():
            self.probes[k] = self.probes.get(k, 0) + v
        self.transitions |= other.transitions

    def to_json(self):
        return {
            "steps": self.steps,
            "checks": self.checks,
            "faults": self.faults,
            "probes": self.probes,
            "transitions": sorted(self.transitions),
        }

    @classmethod
    def from_json(cls, d):
        c = cls()
        c.steps = d["steps"]
        c.checks = d["checks"]
        c.faults = dict(d["faults"])
        c.probes = dict(d["probes"])
        c.transitions = set(d["transitions"])
        return c


# --------------------------------------------------------------------------- violations
class Violation(Exception):
    def __init__(self, rule: str, step, detail: dict, sig: str = ""):
        super().__init__(rule)
        self.rule = rule
        self.step = step
        self.detail = detail
        self.sig = sig

    def to_json(self):
        return {
            "rule": self.rule,
            "step": self.step,
            "sig": self.sig,
            "detail": json.loads(json.dumps(self.detail, default=_json_default)),
        }


# --------------------------------------------------------------------------- fault decisions
class FaultPlan:
    """Explicit, stateless fault decisions.

    A decision is a pure function of (plan seed, step id, site, occurrence of the site in
    that step) and the per-site rate, so that deleting a step during minimisation leaves
    every other decision where it was. ``forced`` lists decisions that fire regardless of
    the rate; ``off`` lists sites that are switched off.
    """

    def __init__(self, d: dict | None):
        d = d or {}
        self.seed = d.get("seed", 0)
        self.rates = dict(d.get("rates", {}))
        self.off = set(d.get("off", ()))
        self.step = None
        self._occ = {}

    def to_json(self):
        return {"seed": self.seed, "rates": self.rates, "off": sorted(self.off)}

    def at_step(self, step_id):
        self.step = step_id
        self._occ = {}

    def fires(self, site: str) -> bool:
        rate = self.rates.get(site, 0.0)
        if rate <= 0.0 or site in self.off or self.step is None:
            return False
        k = self._occ.get(site, 0)
        self._occ[site] = k + 1
        return unit_float(self.seed, self.step, site, k) < rate


# --------------------------------------------------------------------------- seams: memo tables
class FlakyDict(dict):
    """A memo table that may report a miss although the entry is present.

    ``mode='getitem'``: the table is read with ``try: d[k] except KeyError`` (a forced miss
    raises KeyError).  ``mode='contains'``: the table is read with ``k in d`` followed by
    ``d[k]`` (only ``in`` may lie).
    """

    __slots__ = ("site", "mode", "plan", "col")

    def __init__(self, src, site, mode, plan, col):
        super().__init__(src)
        self.site = site
        self.mode = mode
        self.plan = plan
        self.col = col

    def __getitem__(self, k):
        if self.mode == "getitem" and dict.__contains__(self, k):
            if self.plan.fires("miss:" + self.site):
                self.col.fault("cache_miss:" + self.site)
                raise KeyError(k)
            self.col.probe("memo_hit:" + self.site)
        return dict.__getitem__(self, k)

    def __contains__(self, k):
        present = dict.__contains__(self, k)
        if present and self.mode == "contains":
            if self.plan.fires("miss:" + self.site):
                self.col.fault("cache_miss:" + self.site)
                return False
            self.col.probe("memo_hit:" + self.site)
        return present

    def __reduce__(self):  # pickles and copies as a plain dict
        return (dict, (dict(self),))


def install_flaky(ureg, plan: FaultPlan, col: Collector):
    """(Re-)wrap every memo table of a registry. Idempotent; call at the start of each step,
    because pint replaces some of the tables wholesale (default_system setter, _build_cache)."""
    if not plan.rates:
        # no forced misses in this run: leave pint's own objects in place (wrapping replaces the
        # attribute on the instance, which would e.g. un-share a table that is shared by mistake)
        return

    def wrap(obj, attr, site, mode):
        cur = getattr(obj, attr, None)
        if isinstance(cur, dict) and not isinstance(cur, FlakyDict):
            setattr(obj, attr, FlakyDict(cur, site, mode, plan, col))

    for cache in list(getattr(ureg, "_caches", {}).values()) or [ureg._cache]:
        wrap(cache, "root_units", "root_units", "getitem")
        wrap(cache, "conversion_factor", "conversion_factor", "getitem")
        wrap(cache, "dimensionality", "dimensionality", "getitem")
        wrap(cache, "parse_unit", "parse_unit", "contains")
    if hasattr(ureg, "_base_units_cache"):
        wrap(ureg, "_base_units_cache", "base_units", "contains")


class gc_controlled:
    """Cycle collection happens only when the scheduler says so."""

    def __enter__(self):
        self.was = gc.isenabled()
        gc.collect()
        gc.disable()
        return self

    def __exit__(self, *a):
        if self.was:
            gc.enable()


# --------------------------------------------------------------------------- normalisation
def exc_name(e: BaseException) -> str:
    return type(e).__name__


def norm_units(uc) -> list:
    """A UnitsContainer / Unit / Quantity's units as a sorted [(name, exponent)] list."""
    d = getattr(uc, "_units", uc)
    out = []
    for k in d:
        v = d[k]
        out.append([k, norm_num(v)])
    out.sort()
    return out


def norm_num(x):
    """Numbers in a form that compares exactly where exact, and is JSON-able."""
    if isinstance(x, bool) or x is None:
        return x
    if isinstance(x, int):
        return x
    if isinstance(x, Fraction):
        return x.numerator if x.denominator == 1 else f"{x.numerator}/{x.denominator}"
    if isinstance(x, Decimal):
        return f"D{x.normalize()}"
    if isinstance(x, float):
        return float(x)  # stays a float: compared with tolerance, never exactly
    try:
        import numpy as np

        if isinstance(x, np.generic):
            return norm_num(x.item())
        if isinstance(x, np.ndarray):
            return [norm_num(v) for v in x.tolist()]
    except Exception:
        pass
    return f"<{type(x).__name__}>"


def _numeric_string(x):
    return isinstance(x, str) and (x[:1] == "D" or "/" in x) and x[1:2] != "" and not x.startswith("<")


def _to_fraction(x):
    if isinstance(x, str):
        return Fraction(x[1:]) if x.startswith("D") else Fraction(x)
    return Fraction(x)


def num_close(a, b, rel=1e-9) -> bool:
    """Equality of two normalised numbers: exact unless one of them is a float (relative
    tolerance ``rel``) or a Decimal (28 significant digits: relative tolerance 1e-20)."""
    if type(a) is list and type(b) is list:
        return len(a) == len(b) and all(num_close(x, y, rel) for x, y in zip(a, b))
    if not isinstance(a, float) and not isinstance(b, float) and (_numeric_string(a) or _numeric_string(b)):
        try:
            fa, fb = _to_fraction(a), _to_fraction(b)
        except Exception:
            return a == b
        if fa == fb:
            return True
        if (isinstance(a, str) and a.startswith("D")) or (isinstance(b, str) and b.startswith("D")):
            return abs(fa - fb) <= Fraction(1, 10**20) * max(abs(fa), abs(fb))
        return False
    if isinstance(a, float) or isinstance(b, float):
        try:
            fa, fb = _as_float(a), _as_float(b)
        except Exception:
            return a == b
        if fa == fb:
            return True
        if fa != fa and fb != fb:
            return True
        return abs(fa - fb) <= rel * max(abs(fa), abs(fb))
    return a == b


def _as_float(a):
    if isinstance(a, str):
        if a.startswith("D"):
            return float(a[1:])
        if "/" in a:
            n, d = a.split("/")
            return int(n) / int(d)
    return float(a)


def answers_equal(a, b, rel=1e-9) -> bool:
    """Structural equality of normalised answers with numeric tolerance for floats."""
    if isinstance(a, (list, tuple)) and isinstance(b, (list, tuple)):
        return len(a) == len(b) and all(answers_equal(x, y, rel) for x, y in zip(a, b))
    if isinstance(a, dict) and isinstance(b, dict):
        return a.keys() == b.keys() and all(answers_equal(a[k], b[k], rel) for k in a)
    if isinstance(a, (int, float)) and not isinstance(a, bool) or isinstance(b, float):
        if isinstance(b, (int, float, str)) and not isinstance(b, bool):
            return num_close(a, b, rel)
    if _numeric_string(a) and (_numeric_string(b) or (isinstance(b, (int, float)) and not isinstance(b, bool))):
        return num_close(a, b, rel)
    return a == b


def frac(s) -> Fraction:
    return s if isinstance(s, Fraction) else Fraction(str(s))


# --------------------------------------------------------------------------- minimiser
def minimise(world, case, rule, sig, budget=300):
    """Greedy delta debugging driven by the world's own candidate generator.

    A candidate is accepted only if it still violates the *same rule with the same
    signature*. Returns (smaller case, executions used)."""
    used = 0
    improved = True
    while improved and used < budget:
        improved = False
        for cand in world.shrink(case):
            if used >= budget:
                break
            used += 1
            try:
                v = world.run_case(cand, Collector())
            except Exception:  # a candidate the world cannot even set up is not a candidate
                continue
            if v is not None and v.rule == rule and v.sig == sig:
                case = cand
                improved = True
                break
    return case, used


def ddmin_list(items):
    """Candidate sub-lists of ``items`` for greedy deletion: halves, quarters, ..., singles."""
    n = len(items)
    if n == 0:
        return
    chunk = n // 2
    seen = set()
    while chunk >= 1:
        for start in range(0, n, chunk):
            key = (start, min(n, start + chunk))
            if key in seen or key == (0, n):
                continue
            seen.add(key)
            yield items[: key[0]] + items[key[1] :]
        chunk //= 2


# --------------------------------------------------------------------------- known findings
_OPEN = None


def open_findings() -> set:
    """Ids of the open entries of /verif/known_findings.json. Worlds use this only to keep a
    run going past a deviation that has exactly the recorded shape of an open finding (it is
    counted, and the finding's own replay file is run by the runner with VERIF_IGNORE_KNOWN=1,
    where the deviation is raised as a violation again)."""
    global _OPEN
    if _OPEN is None:
        _OPEN = set()
        if not os.environ.get("VERIF_IGNORE_KNOWN"):
            p = os.path.join(os.path.dirname(os.path.dirname(os.path.abspath(__file__))), "known_findings.json")
            try:
                for k in json.load(open(p)).get("findings", []):
                    if k.get("status") == "open":
                        _OPEN.add(k["id"])
            except FileNotFoundError:
                pass
    return _OPEN


# --------------------------------------------------------------------------- forked evaluation
def fork_eval(fn):
    """Evaluate fn() in a forked child and return its JSON-able result. The child inherits the
    parent's memory as it is now (e.g. a registry that has just been built and never been
    asked anything) and disappears afterwards, so nothing it did survives."""
    r, w = os.pipe()
    pid = os.fork()
    if pid == 0:
        code = 0
        try:
            os.close(r)
            try:
                out = ["ok", fn()]
            except BaseException as e:  # noqa
                out = ["exc", type(e).__name__, str(e)[:300]]
            data = json.dumps(out, default=_json_default).encode()
            mv = memoryview(data)
            while mv:
                n = os.write(w, mv)
                mv = mv[n:]
        except BaseException:
            code = 3
        finally:
            os._exit(code)
    os.close(w)
    chunks = []
    while True:
        b = os.read(r, 1 << 16)
        if not b:
            break
        chunks.append(b)
    os.close(r)
    _, status = os.waitpid(pid, 0)
    if status != 0 or not chunks:
        raise HarnessError(f"forked evaluation died (status {status})")
    out = json.loads(b"".join(chunks))
    if out[0] == "exc":
        raise HarnessError(f"forked evaluation raised {out[1]}: {out[2]}")
    return out[1]
