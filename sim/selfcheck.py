"""MANIFEST.setup_cmd: nothing to build or fetch. Checks that the pieces import, that pint is
importable from /repo, that MANIFEST.json lists exactly the 20 given properties, and runs a
few-second determinism smoke test (same seed, two fresh interpreters, identical digests)."""

from __future__ import annotations

import json
import os
import sys

from . import runner
from .core import derive

ROOT = runner.ROOT


def main():
    props = [json.loads(l)["id"] for l in open(os.path.join(ROOT, "properties.jsonl")) if l.strip()]
    man = json.load(open(os.path.join(ROOT, "MANIFEST.json")))
    claimed = [c["property_id"] for c in man["checks"]]
    na = [c["property_id"] for c in man.get("not_applicable", [])]
    assert sorted(claimed + na) == sorted(props), (sorted(claimed + na), sorted(props))
    for c in claimed:
        assert c in runner.TIERS, c
    ok = True
    for prop in claimed:
        args = ["--prop", prop, "--seed", "12345", "--first", "0", "--runs", "4", "--digests"]
        a = runner.run_worker(args, 7, 600)
        b = runner.run_worker(args, 7, 600)
        if "error" in a or "error" in b:
            print("selfcheck: worker failed for", prop, a.get("error"), a.get("stderr", "")[-800:])
            ok = False
            continue
        same = a["digests"] == b["digests"]
        print(f"selfcheck {prop}: 4 runs twice, digests {'identical' if same else 'DIFFER'}")
        ok = ok and same
    print("selfcheck", "ok" if ok else "FAILED")
    return 0 if ok else 1


if __name__ == "__main__":
    sys.exit(main())
