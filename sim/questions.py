"""Read-only questions put to a registry, as JSON-able lists, and their normalised answers.

The same question can be put to the history-laden registry and to a pristine one, so
answers contain no object identity: exceptions become their class name, units sorted
(name, exponent) lists, sets sorted lists, numbers exact where the registry is exact.
"""

from __future__ import annotations

from .core import HarnessError, Sentinel, exc_name, norm_num, norm_units

FORMAT_SPECS = ["", "P", "C", "D", "~", "~P", "~C", "~D", "H", "~H", "L", "~L", ".3f", ".2e~P", "Lx"]


def unit_name_set(units) -> list:
    out = []
    for u in units:
        nu = norm_units(u)
        from .core import num_close

        out.append(nu[0][0] if len(nu) == 1 and num_close(nu[0][1], 1) else repr(nu))
    return sorted(out)


def ask(ureg, q, num):
    """Answer one question. ``num`` converts a decimal literal to the registry's numeric type."""
    kind = q[0]
    try:
        if kind == "conv":
            r = ureg.Quantity(num(q[1]), q[2]).to(q[3])
            return ["ok", norm_num(r.magnitude), norm_units(r)]
        if kind == "convert":
            return ["ok", norm_num(ureg.convert(num(q[1]), q[2], q[3]))]
        if kind == "conv_ctx":
            r = ureg.Quantity(num(q[1]), q[2]).to(q[3], *q[4:])
            return ["ok", norm_num(r.magnitude), norm_units(r)]
        if kind == "parse_units":
            kw = q[2] if len(q) > 2 else {}
            return ["ok", norm_units(ureg.parse_units(q[1], **kw))]
        if kind == "parse_expr":
            r = ureg.parse_expression(q[1])
            if hasattr(r, "magnitude"):
                return ["ok", norm_num(r.magnitude), norm_units(r)]
            return ["ok", norm_num(r), []]
        if kind == "root":
            f, u = ureg.get_root_units(q[1])
            return ["ok", norm_num(f), norm_units(u)]
        if kind == "base":
            f, u = ureg.get_base_units(q[1])
            return ["ok", norm_num(f), norm_units(u)]
        if kind == "base_sys":
            f, u = ureg.get_base_units(q[1], system=q[2])
            return ["ok", norm_num(f), norm_units(u)]
        if kind == "dim":
            return ["ok", norm_units(ureg.get_dimensionality(ureg.parse_units(q[1])))]
        if kind == "compat_q":
            return ["ok", bool(ureg.is_compatible_with(ureg.Quantity(1, q[1]), ureg.Unit(q[2])))]
        if kind == "compat":
            return ["ok", unit_name_set(ureg.get_compatible_units(q[1]))]
        if kind == "compat_g":
            return ["ok", unit_name_set(ureg.get_compatible_units(q[1], q[2]))]
        if kind == "name":
            return ["ok", ureg.get_name(q[1])]
        if kind == "symbol":
            return ["ok", ureg.get_symbol(q[1])]
        if kind == "contains":
            return ["ok", q[1] in ureg]
        if kind == "getattr":
            return ["ok", norm_units(getattr(ureg, q[1]))]
        if kind == "fmt_q":
            return ["ok", format(ureg.Quantity(num(q[1]), q[2]), q[3])]
        if kind == "fmt_u":
            return ["ok", format(ureg.Unit(q[1]), q[2])]
        if kind == "compact":
            r = ureg.Quantity(num(q[1]), q[2]).to_compact()
            return ["ok", norm_num(r.magnitude), norm_units(r)]
        if kind == "tobase":
            r = ureg.Quantity(num(q[1]), q[2]).to_base_units()
            return ["ok", norm_num(r.magnitude), norm_units(r)]
        if kind == "toroot":
            r = ureg.Quantity(num(q[1]), q[2]).to_root_units()
            return ["ok", norm_num(r.magnitude), norm_units(r)]
        if kind == "toreduced":
            r = ureg.Quantity(num(q[1]), q[2]).to_reduced_units()
            return ["ok", norm_num(r.magnitude), norm_units(r)]
        if kind == "pattern":
            r = ureg.parse_pattern(q[1], q[2])
            return ["ok", [[norm_num(x.magnitude), norm_units(x)] for x in (r or [])]]
        if kind == "default_system":
            return ["ok", ureg.default_system]
        if kind == "settings":
            return ["ok", ureg.default_system, ureg.case_sensitive, bool(ureg.force_ndarray), bool(ureg.auto_reduce_dimensions),
                    ureg.non_int_type.__name__, sorted(ureg._defaults.items()) if hasattr(ureg, "_defaults") else None]
        if kind == "members":
            return ["ok", sorted(ureg.get_group(q[1], False).members)]
        if kind == "sysmembers":
            return ["ok", sorted(ureg.get_system(q[1], False).members)]
        if kind == "sysattr":
            return ["ok", norm_units(getattr(getattr(ureg.sys, q[1]), q[2]))]
        if kind == "sysdir_all":
            return ["ok", sorted(n for n in dir(ureg.sys) if not n.startswith("_"))]
        if kind == "sysdir":
            return ["ok", sorted(dir(getattr(ureg.sys, q[1])))]
    except Sentinel:
        raise
    except RecursionError:
        return ["exc", "RecursionError"]
    except Exception as e:
        return ["exc", exc_name(e)]
    raise HarnessError(f"unknown question {q!r}")
