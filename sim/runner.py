"""Batch runner and command-line interface of the checks.

    ./check <ID> [--tier quick|thorough] [--replay FILE]

The runner never imports pint. It starts block workers (fresh interpreters, each under its
own PYTHONHASHSEED derived from VERIF_SEED), merges what they measured, confirms every
reported violation by replaying its minimised file in yet another fresh interpreter,
classifies it against /verif/known_findings.json, writes /verif/evidence/<ID>.json and
sets the exit status: 0 held, 1 violation (with a VIOLATION line), 2 harness failure.
"""

from __future__ import annotations

import argparse
import json
import os
import re
import subprocess
import sys
import time
from concurrent.futures import ThreadPoolExecutor

from .core import Collector, derive

ROOT = os.path.dirname(os.path.dirname(os.path.abspath(__file__)))
PY = os.environ.get("VERIF_PYTHON", "/venv/bin/python")
NPROC = int(os.environ.get("VERIF_WORKERS", "0")) or min(16, os.cpu_count() or 1)

# blocks x runs per block; wall = per-block cap in seconds after which no new run is started
TIERS = {
    "C12": {"quick": (32, 90, 60), "thorough": (192, 400, 420)},
    "C11": {"quick": (32, 90, 60), "thorough": (192, 400, 420)},
    "C13": {"quick": (32, 60, 60), "thorough": (192, 300, 420)},
    "C14": {"quick": (32, 200, 60), "thorough": (192, 1500, 420)},
    "C08": {"quick": (32, 30, 60), "thorough": (192, 120, 420)},
    "C10": {"quick": (32, 50, 60), "thorough": (192, 400, 420)},
    "C18": {"quick": (32, 20, 60), "thorough": (192, 100, 420)},
}

RULE_TEXT = {
    "C12": "one case = generated definitions (units, prefixes, 1-6 contexts with rules, parameters, redefinitions, invalid redefinitions) + a tree-shaped program of enable/disable/with/decorated-call/try/raise/probe/define/gc statements + an explicit fault plan (forced memo misses per table, raising callbacks, invalid activations at position k). distinct_nontrivial counts distinct transitions (abstract stack of context ids (top 4), statement kind, outcome kind, overlay active?) reached in a non-initial state or changing the state.",
    "C11": "one case = generated definitions and contexts (overlapping rules, chains of different length, several shortest chains, parameters, redefinitions with dependants) + a program of activations in four forms and probe conversions in six forms; every probe value is compared with the exact value of some shortest chain computed by the reference model. distinct_nontrivial counts distinct (probe form, outcome kind, stack depth, per-call activation?, overlay active?) and stack transitions.",
}


def sweep_scratch(max_age_s=3600):
    """Scratch directories are removed by the run that made them; one whose process was killed stays
    behind. Remove those that have not been touched for an hour."""
    import shutil
    import tempfile

    for root in ("/dev/shm", tempfile.gettempdir()):
        try:
            names = os.listdir(root)
        except OSError:
            continue
        for n in names:
            if n.startswith(("verif-disk-", "verif-c13-", "verif-mutant-")):
                p = os.path.join(root, n)
                try:
                    if time.time() - os.stat(p).st_mtime > max_age_s:
                        shutil.rmtree(p, ignore_errors=True)
                except OSError:
                    pass


def load_known():
    p = os.path.join(ROOT, "known_findings.json")
    if not os.path.exists(p):
        return []
    return json.load(open(p)).get("findings", [])


def match_known(known, prop, rec):
    for k in known:
        if k.get("status") != "open" or k.get("property") != prop:
            continue
        m = k.get("match", {})
        if m.get("rule") and m["rule"] != rec["rule"]:
            continue
        if m.get("sig") and not re.fullmatch(m["sig"], rec.get("sig", "")):
            continue
        return k
    return None


def run_worker(args, hashseed, timeout):
    env = dict(os.environ)
    env["PYTHONHASHSEED"] = str(hashseed)
    env["PYTHONDONTWRITEBYTECODE"] = "1"
    env["PYTHONPATH"] = ROOT
    t0 = time.time()
    try:
        p = subprocess.run([PY, "-m", "sim.worker", *args], cwd=ROOT, env=env, capture_output=True,
                           text=True, timeout=timeout)
    except subprocess.TimeoutExpired as e:
        return {"error": f"worker timed out after {timeout}s", "args": args,
                "stderr": (e.stderr or b"")[-2000:] if isinstance(e.stderr, (bytes, str)) else ""}
    res = None
    for line in p.stdout.splitlines():
        if line.startswith("RESULT "):
            res = json.loads(line[7:])
    if res is None or p.returncode != 0:
        return {"error": f"worker exit {p.returncode} without result", "args": args,
                "stderr": p.stderr[-3000:], "stdout": p.stdout[-500:]}
    res["elapsed"] = time.time() - t0
    return res


def replay_file(path, hashseed=None, trace=False, ignore_known=False):
    if ignore_known:
        os.environ["VERIF_IGNORE_KNOWN"] = "1"
    else:
        os.environ.pop("VERIF_IGNORE_KNOWN", None)
    try:
        return _replay_file(path, hashseed, trace)
    finally:
        os.environ.pop("VERIF_IGNORE_KNOWN", None)


def _replay_file(path, hashseed=None, trace=False):
    case = json.load(open(path))
    hs = hashseed if hashseed is not None else case.get("hashseed", "0")
    if trace:
        os.environ["VERIF_TRACE"] = "1"
    return case, run_worker(["--replay", path], hs, 900)


def cmd_replay(prop, path):
    case, res = replay_file(path, trace=bool(os.environ.get("VERIF_TRACE")),
                            ignore_known="/findings/" in os.path.abspath(path))
    if "error" in res:
        print(f"HARNESS-ERROR replay: {res['error']}\n{res.get('stderr', '')}")
        return 2
    v = res["violation"]
    if v is None:
        print(f"replay of {path}: the property held (recorded rule {case.get('rule')} did not fail)")
        return 0
    same = v["rule"] == case.get("rule") and res["digest"] == case.get("digest")
    print(f"replay of {path}: rule={v['rule']} step={v['step']} sig={v['sig']} "
          f"digest={res['digest']} ({'identical to' if same else 'DIFFERS from'} the recorded failure)")
    print(json.dumps(v["detail"], indent=1)[:4000])
    if res.get("log"):
        for line in res["log"]:
            print("  ", line)
    print(f"VIOLATION property={prop} replay={path}")
    return 1


def main(argv=None):
    ap = argparse.ArgumentParser()
    ap.add_argument("prop")
    ap.add_argument("--tier", default=os.environ.get("VERIF_TIER") or "quick")
    ap.add_argument("--replay", default=None)
    ap.add_argument("--blocks", type=int, default=0)
    ap.add_argument("--runs", type=int, default=0)
    ap.add_argument("--no-evidence", action="store_true")
    a = ap.parse_args(argv)
    prop = a.prop
    if a.replay:
        return cmd_replay(prop, a.replay)
    tier = a.tier if a.tier in ("quick", "thorough") else "quick"
    seed = int(os.environ.get("VERIF_SEED", "0") or 0)
    blocks, runs, wall = TIERS[prop][tier]
    blocks = a.blocks or blocks
    runs = a.runs or runs
    sweep_scratch()
    outdir = os.environ.get("VERIF_REPLAY_DIR") or os.path.join(ROOT, "replays")
    os.makedirs(outdir, exist_ok=True)
    for f in os.listdir(outdir):  # leftovers of an earlier batch with the same seed
        if f.startswith(f"STOP-{prop}-{seed}") or f.startswith(f"{prop}-{seed}-"):
            os.remove(os.path.join(outdir, f))
    t0 = time.time()
    print(f"[{prop}] tier={tier} VERIF_SEED={seed} blocks={blocks} runs/block={runs} workers={NPROC} "
          f"pint={os.environ.get('VERIF_PINT_PATH', '/repo')}", flush=True)

    jobs = []
    for b in range(blocks):
        hs = derive(seed, prop, "hashseed", b) % 1000
        args = ["--prop", prop, "--tier", tier, "--seed", str(seed), "--first", str(b * runs),
                "--runs", str(runs), "--out", outdir, "--wall", str(wall), "--samples", "1" if b < 4 else "0"]
        jobs.append((args, hs))
    with ThreadPoolExecutor(max_workers=NPROC) as ex:
        results = list(ex.map(lambda j: run_worker(j[0], j[1], wall + 1500), jobs))

    errors = [r for r in results if "error" in r]
    good = [r for r in results if "error" not in r]
    total = Collector()
    nruns = 0
    n_harness = 0
    samples = []
    violations = []
    for r in good:
        total.merge(Collector.from_json(r["collector"]))
        nruns += r["runs"]
        n_harness += r["n_harness_errors"]
        samples.extend(r.get("samples", []))
        violations.extend(r["violations"])
        for h in r["harness_errors"][:1]:
            errors.append({"error": "run raised inside the harness: " + h["error"], "stderr": h["tb"]})
    wall_s = time.time() - t0

    # ---- findings recorded earlier: replay each one, report it as KNOWN-FINDING
    known = load_known()
    exit_code = 0
    n_regression = 0
    for k in known:
        if k.get("status") == "open" and k.get("property") == prop:
            line = f"KNOWN-FINDING: property={prop} {k['id']}: {k['what']}"
            rp = k.get("replay")
            if rp:
                _, res = replay_file(os.path.join(ROOT, rp), ignore_known=True)
                if "error" in res:
                    errors.append({"error": f"replay of known finding {k['id']} failed: {res['error']}",
                                   "stderr": res.get("stderr", "")})
                elif res["violation"] is None:
                    line += " [its recorded history no longer fails on this tree]"
                elif not match_known([k], prop, res["violation"]):
                    # the recorded history now fails differently: that is a new violation
                    violations.append({"rule": res["violation"]["rule"], "sig": res["violation"]["sig"],
                                       "path": os.path.join(ROOT, rp), "index": -1,
                                       "violation": res["violation"], "digest": res["digest"],
                                       "hashseed": res.get("hashseed")})
            print(line)
        elif (k.get("status") == "fixed" and k.get("property") == prop and k.get("replay")
              and not os.environ.get("VERIF_SKIP_REGRESSION_REPLAYS")):  # (self-tests of the search alone set this)
            # the recorded history of a repaired defect: it must hold now, and is a violation if it ever fails again
            rp = os.path.join(ROOT, k["replay"])
            _, res = replay_file(rp)
            n_regression += 1
            if "error" in res:
                errors.append({"error": f"replay of repaired finding {k['id']} failed: {res['error']}",
                               "stderr": res.get("stderr", "")})
            elif res["violation"] is not None:
                violations.append({"rule": res["violation"]["rule"], "sig": res["violation"]["sig"], "path": rp,
                                   "index": -1, "violation": res["violation"], "digest": res["digest"],
                                   "hashseed": res.get("hashseed")})

    # ---- violations found by this batch: confirm by replay in a fresh interpreter, classify
    reported = 0
    suppressed = {}
    violations.sort(key=lambda r: (len(json.dumps(r["violation"])), r.get("index", 0)))
    for rec in violations:
        if reported >= 5:
            print(f"  (+{len(violations) - 5} further violation records not replayed)")
            break
        k = match_known(known, prop, rec)
        if k is not None:
            suppressed[k["id"]] = suppressed.get(k["id"], 0) + 1
            if rec.get("path", "").startswith(outdir):
                try:
                    os.remove(rec["path"])
                except OSError:
                    pass
            continue
        note = ""
        if rec.get("index", 0) >= 0:
            _, res = replay_file(rec["path"])
            if "error" in res:
                errors.append({"error": "replay failed: " + res["error"], "stderr": res.get("stderr", "")})
                continue
            if res["violation"] is None or res["violation"]["rule"] != rec["rule"]:
                # does not reproduce in a fresh interpreter: a defect of the harness (lost determinism)
                errors.append({"error": f"violation {rec['rule']} at index {rec['index']} did not reproduce on replay "
                                        f"({rec['path']})", "stderr": ""})
                continue
            if res["digest"] != rec["digest"]:
                note = " (replay digest differs)"
        print(f"  rule={rec['rule']} sig={rec.get('sig')} index={rec.get('index')} "
              f"detail={json.dumps(rec['violation']['detail'])[:600]}{note}")
        print(f"VIOLATION property={prop} replay={rec['path']}")
        reported += 1
        exit_code = 1
    for kid, n in suppressed.items():
        print(f"  ({n} run(s) of this batch hit known finding {kid})")

    if errors:
        for e in errors[:5]:
            print("HARNESS-ERROR " + e["error"])
            if e.get("stderr"):
                print(str(e["stderr"])[-1500:])
        exit_code = exit_code or 2

    if not a.no_evidence and exit_code != 2:
        write_evidence(prop, tier, seed, nruns, total, samples, wall_s, reported, blocks, runs,
                       suppressed, n_harness, n_regression)
    stop = os.path.join(outdir, f"STOP-{prop}-{seed}")
    if os.path.exists(stop):
        os.remove(stop)
    rate = nruns / wall_s * 3600 if wall_s > 0 else 0
    print(f"[{prop}] runs={nruns} steps={total.steps} oracle_checks={total.checks} "
          f"transitions={len(total.transitions)} violations={reported} wall={wall_s:.1f}s "
          f"({rate:,.0f} runs/h) exit={exit_code}")
    return exit_code


def write_evidence(prop, tier, seed, nruns, total, samples, wall_s, nviol, blocks, runs, suppressed, n_harness,
                   n_regression=0):
    from .worlds import describe

    info = describe(prop)
    nontrivial = sorted(t for t in total.transitions if not info["trivial"](t))
    ev = {
        "property_id": prop,
        "tier": tier,
        "seed": seed,
        "level": "exploration",
        "coverage": {
            "evaluations": nruns,
            "distinct_nontrivial": len(nontrivial),
            "rule": info["rule"],
            "samples": samples[:4] or [{"note": "no sample collected"}],
            "exhaustive": False,
            "blocks": blocks,
            "runs_per_block": runs,
            "simulated_steps": total.steps,
            "simulated_time_note": "pint has no clock; simulated time is the logical step count",
            "oracle_checks": total.checks,
            "runs_per_hour": round(nruns / wall_s * 3600) if wall_s else 0,
            "steps_per_hour": round(total.steps / wall_s * 3600) if wall_s else 0,
            "faults_fired": dict(sorted(total.faults.items())),
            "probes": dict(sorted(total.probes.items())),
            "distinct_transitions_all": len(total.transitions),
            "known_findings_hit": suppressed,
            "recorded_histories_of_repaired_defects_replayed": n_regression,
            "runs_lost_to_harness_errors": n_harness,
            "real_components": info["real"],
            "stub_components": info["stubs"],
        },
        "assumptions": info["assumptions"],
        "wall_s": round(wall_s, 2),
        "violations": nviol,
    }
    os.makedirs(os.path.join(ROOT, "evidence"), exist_ok=True)
    with open(os.path.join(ROOT, "evidence", f"{prop}.json"), "w") as f:
        json.dump(ev, f, indent=1, sort_keys=True)


if __name__ == "__main__":
    sys.exit(main())
