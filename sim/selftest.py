"""Self-tests of the machinery (not registered as checks):

    python -m sim.selftest determinism [--props C12,C11] [--runs 200]
        every run index executed (a) twice in fresh interpreters under the same hash seed,
        (b) with a different block partition (catches state leaking from run to run inside a
        worker), (c) under another PYTHONHASHSEED (verdicts must agree); per-run digests diffed.

    python -m sim.selftest mutants [--props ...] [--only NAME] [--tier quick]
        every mutant of selftest/mutants.py applied to a scratch copy of /repo/pint (outside
        /repo and /verif, removed afterwards); the property's check must report a VIOLATION.
"""

from __future__ import annotations

import argparse
import json
import os
import shutil
import subprocess
import sys
import tempfile
import time
from concurrent.futures import ThreadPoolExecutor

from . import runner

ROOT = runner.ROOT


def digests(prop, seed, first, runs, hashseed, block):
    """per-run digests of indexes [first, first+runs) executed in blocks of ``block`` runs."""
    jobs = []
    for f in range(first, first + runs, block):
        n = min(block, first + runs - f)
        jobs.append(["--prop", prop, "--seed", str(seed), "--first", str(f), "--runs", str(n), "--digests"])
    with ThreadPoolExecutor(max_workers=runner.NPROC) as ex:
        res = list(ex.map(lambda a: runner.run_worker(a, hashseed, 1800), jobs))
    out = {}
    for r in res:
        if "error" in r:
            raise SystemExit(f"worker failed: {r['error']}\n{r.get('stderr', '')}")
        for i, d in r["digests"]:
            out[i] = d
    return out


def cmd_determinism(a):
    props = a.props.split(",")
    bad = 0
    for prop in props:
        t0 = time.time()
        base = digests(prop, a.seed, 0, a.runs, 11, 25)
        again = digests(prop, a.seed, 0, a.runs, 11, 25)
        other_part = digests(prop, a.seed, 0, a.runs, 11, 7)
        other_hash = digests(prop, a.seed, 0, a.runs, 12, 25)
        d1 = [i for i in base if base[i] != again.get(i)]
        d2 = [i for i in base if base[i] != other_part.get(i)]
        verdict = lambda d: d.split("!")[1] if "!" in d else ""
        d3 = [i for i in base if verdict(base[i]) != verdict(other_hash.get(i, ""))]
        d3b = [i for i in base if base[i] != other_hash.get(i)]
        print(f"{prop}: {len(base)} runs; same seed twice: {len(d1)} differ; other block partition: {len(d2)} differ; "
              f"other PYTHONHASHSEED: {len(d3)} verdicts differ ({len(d3b)} digests differ); {time.time() - t0:.0f}s")
        if d1 or d2 or d3:
            bad += 1
            print("   differing indexes:", d1[:10], d2[:10], d3[:10])
    return 1 if bad else 0


def apply_mutant(scratch, m):
    p = os.path.join(scratch, m["file"])
    s = open(p).read()
    if m["old"] not in s:
        raise SystemExit(f"mutant {m['name']}: text to replace not found in {m['file']}")
    s = s.replace(m["old"], m["new"], 1)
    open(p, "w").write(s)


def cmd_mutants(a):
    sys.path.insert(0, os.path.join(ROOT, "selftest"))
    from mutants import MUTANTS

    props = set(a.props.split(",")) if a.props else None
    rows = []
    for m in MUTANTS:
        if props and m["prop"] not in props:
            continue
        if a.only and m["name"] != a.only:
            continue
        scratch = tempfile.mkdtemp(prefix="verif-mutant-", dir="/dev/shm" if os.path.isdir("/dev/shm") else None)
        try:
            shutil.copytree("/repo/pint", os.path.join(scratch, "pint"),
                            ignore=shutil.ignore_patterns("__pycache__", "testsuite"))
            apply_mutant(scratch, m)
            env = dict(os.environ, VERIF_PINT_PATH=scratch, VERIF_REPLAY_DIR=os.path.join(scratch, "replays"))
            t0 = time.time()
            p = subprocess.run([os.path.join(ROOT, "check"), m["prop"], "--tier", a.tier, "--no-evidence"],
                               env=env, capture_output=True, text=True, timeout=3600)
            caught = p.returncode == 1 and "VIOLATION property=" + m["prop"] in p.stdout
            rules = sorted({l.split("rule=")[1].split()[0] for l in p.stdout.splitlines() if l.strip().startswith("rule=")})
            rows.append((m["prop"], m["name"], caught, p.returncode, rules, time.time() - t0))
            print(f"{m['prop']} {m['name']:40s} {'CAUGHT' if caught else 'MISSED'} exit={p.returncode} rules={rules} {time.time() - t0:.0f}s",
                  flush=True)
            if not caught and a.verbose:
                print(p.stdout[-1500:], p.stderr[-1500:])
        finally:
            shutil.rmtree(scratch, ignore_errors=True)
    missed = [r for r in rows if not r[2]]
    print(f"{len(rows) - len(missed)}/{len(rows)} mutants caught")
    if a.json:
        json.dump([{"prop": r[0], "mutant": r[1], "caught": r[2], "exit": r[3], "rules": r[4]} for r in rows],
                  open(a.json, "w"), indent=1)
    return 1 if missed else 0


def main():
    ap = argparse.ArgumentParser()
    sub = ap.add_subparsers(dest="cmd", required=True)
    d = sub.add_parser("determinism")
    d.add_argument("--props", default="C12,C11")
    d.add_argument("--runs", type=int, default=200)
    d.add_argument("--seed", type=int, default=777)
    m = sub.add_parser("mutants")
    m.add_argument("--props", default="")
    m.add_argument("--only", default="")
    m.add_argument("--tier", default="quick")
    m.add_argument("--json", default="")
    m.add_argument("--verbose", action="store_true")
    a = ap.parse_args()
    return cmd_determinism(a) if a.cmd == "determinism" else cmd_mutants(a)


if __name__ == "__main__":
    sys.exit(main())
