"""Reference model of C08: which readings a unit string admits under a declarative table of
prefix and unit spellings. Independent of pint: own reader of the definition-file syntax
(only what names need: spellings, prefix factors, which units are non-multiplicative)."""

from __future__ import annotations

import ast
import operator
import os
import re
from fractions import Fraction


# --------------------------------------------------------------------------- tiny safe arithmetic
_OPS = {ast.Add: operator.add, ast.Sub: operator.sub, ast.Mult: operator.mul, ast.Div: operator.truediv,
        ast.Pow: operator.pow, ast.USub: operator.neg, ast.UAdd: operator.pos}


def arith(s: str) -> Fraction:
    """Evaluate a numeric literal expression exactly (digits, + - * / ** and parentheses)."""
    def ev(n):
        if isinstance(n, ast.Constant) and isinstance(n.value, (int, float)):
            return Fraction(repr(n.value)) if isinstance(n.value, float) else Fraction(n.value)
        if isinstance(n, ast.BinOp) and type(n.op) in _OPS:
            a, b = ev(n.left), ev(n.right)
            if isinstance(n.op, ast.Pow):
                return a ** int(b) if b.denominator == 1 else Fraction(float(a) ** float(b))
            return _OPS[type(n.op)](a, b)
        if isinstance(n, ast.UnaryOp) and type(n.op) in _OPS:
            return _OPS[type(n.op)](ev(n.operand))
        raise ValueError(s)
    return ev(ast.parse(s.strip().replace("^", "**"), mode="eval").body)


# --------------------------------------------------------------------------- the table
class NamesTable:
    def __init__(self):
        self.units = {}  # canonical name -> {"symbol": str|None, "aliases": [..], "mult": bool}
        self.prefixes = {}  # canonical name -> {"symbol": str|None, "aliases": [...], "factor": Fraction|None}
        self.order = []
        self._idx = None

    # -- construction
    def add_unit(self, name, symbol=None, aliases=(), mult=True, delta=True):
        self.units[name] = {"symbol": symbol, "aliases": list(aliases), "mult": mult}
        self.order.append(name)
        if not mult and delta:
            # pint generates a delta_ counterpart for every offset unit
            dsym = "Δ" + (symbol or name)  # pint derives it from the unit's symbol, which defaults to its name
            dal = ["Δ" + a for a in aliases] + ["delta_" + a for a in aliases]
            self.units["delta_" + name] = {"symbol": dsym, "aliases": dal, "mult": True}
            self.order.append("delta_" + name)
        self._idx = None

    def add_alias(self, name, aliases):
        self.units[self.unit_spellings()[name]]["aliases"].extend(aliases)
        self._idx = None

    def add_prefix(self, name, factor, symbol=None, aliases=()):
        self.prefixes[name] = {"symbol": symbol, "aliases": list(aliases), "factor": factor}
        self._idx = None

    @classmethod
    def from_spec(cls, spec):
        t = cls()
        for p in spec.get("prefixes", ()):
            t.add_prefix(p["name"], Fraction(p["factor"]) if "e" not in p["factor"] else Fraction(p["factor"]),
                         p.get("symbol"), p.get("aliases", ()))
        for u in spec.get("units", ()):
            t.add_unit(u["name"], u.get("symbol"), u.get("aliases", ()), mult=u.get("offset") in (None, "0"))
        for a in spec.get("aliases", ()):
            t.add_alias(a["unit"], a["aliases"])
        return t

    # -- indexes
    def _build(self):
        us, ul, ps = {}, {}, {"": ""}
        for n in self.order:
            u = self.units[n]
            for s in [n] + ([u["symbol"]] if u["symbol"] else []) + u["aliases"]:
                us[s] = n  # a later definition of the same spelling wins, as in pint's table
        for s, n in us.items():
            ul.setdefault(s.lower(), set()).add(n)
        for n, p in self.prefixes.items():
            for s in [n] + ([p["symbol"]] if p["symbol"] else []) + p["aliases"]:
                ps[s] = n
        self._idx = (us, ul, ps)

    def unit_spellings(self):
        if self._idx is None:
            self._build()
        return self._idx[0]

    def units_lower(self):
        if self._idx is None:
            self._build()
        return self._idx[1]

    def prefix_spellings(self):
        if self._idx is None:
            self._build()
        return self._idx[2]

    # -- the rule
    def readings(self, s: str, case_sensitive=True) -> set:
        """All admissible readings of ``s`` as (prefix name, unit name). Exact spellings first."""
        us = self.unit_spellings()
        if s in us:
            return {("", us[s])}
        return self.decompositions(s, case_sensitive)

    def decompositions(self, s: str, case_sensitive=True) -> set:
        """Every (prefix, unit[, plural]) decomposition of ``s``, equivalent ones merged."""
        us, ul, ps = self.unit_spellings(), self.units_lower(), self.prefix_spellings()
        out = set()
        for p, pname in ps.items():
            if not s.startswith(p):
                continue
            rest = s[len(p):]
            for suffix in ("", "s"):
                if suffix:
                    if not rest.endswith("s"):
                        continue
                    stem = rest[:-1]
                    if len(stem) == 1:
                        continue  # no plural of one-letter stems
                else:
                    stem = rest
                if not stem:
                    continue
                if case_sensitive:
                    if stem in us:
                        out.add((pname, us[stem]))
                else:
                    for n in ul.get(stem.lower(), ()):
                        out.add((pname, n))
        # equivalent readings: ('', 'kilogram') next to ('kilo', 'gram') -> the prefixed one
        for pname, uname in list(out):
            if pname:
                out.discard(("", pname + uname))
        return out

    def explicit(self, reading):
        """The unit defined under the spelling prefix name + unit name of this reading, if any (bundled:
        'milliarcsecond' next to milli- and arcsecond): a defined spelling denotes that unit."""
        p, u = reading
        return self.unit_spellings().get(p + u) if p else None

    def canonical(self, reading):
        return self.explicit(reading) or reading[0] + reading[1]

    def symbol(self, reading):
        p, u = reading
        ex = self.explicit(reading)
        if ex:
            return self.units[ex]["symbol"] or ex
        ps = self.prefixes[p]["symbol"] or p if p else ""
        return ps + (self.units[u]["symbol"] or u)

    def factor(self, reading):
        return self.prefixes[reading[0]]["factor"] if reading[0] else Fraction(1)


# --------------------------------------------------------------------------- reader of definition files
_MODIFIER = re.compile(r";\s*(\w+)\s*:\s*([^;=]+)")


def read_definition_file(path, table=None) -> NamesTable:
    """Own reader of pint's definition-file language, for names only."""
    t = table or NamesTable()
    block = None
    for raw in open(path, encoding="utf-8"):
        line = raw.split("#", 1)[0].strip()
        if not line:
            continue
        if line.startswith("@import"):
            read_definition_file(os.path.join(os.path.dirname(path), line.split(None, 1)[1].strip()), t)
            continue
        if line.startswith("@end"):
            block = None
            continue
        if line.startswith("@alias"):
            parts = [x.strip() for x in line[len("@alias"):].split("=")]
            t.add_alias(parts[0], parts[1:])
            continue
        if line.startswith("@"):
            block = line.split()[0].split("(")[0]
            continue
        if block in ("@system", "@context", "@defaults"):
            continue
        if line.startswith("["):
            continue  # dimension
        parts = [x.strip() for x in line.split("=")]
        name, value, rest = parts[0], parts[1], parts[2:]
        if name.endswith("-"):
            sym = rest[0].rstrip("-") if rest and rest[0] != "_" else None
            try:
                factor = arith(value)
            except Exception:
                factor = None
            t.add_prefix(name.rstrip("-"), factor, sym, [a.rstrip("-") for a in rest[1:]])
            continue
        mult = True
        mods = dict((k, v.strip()) for k, v in _MODIFIER.findall(value))
        if "logbase" in mods:
            mult = False
            delta = False
        else:
            delta = True
        if "offset" in mods:
            try:
                mult = arith(mods["offset"]) == 0
            except Exception:
                mult = False
        sym = rest[0] if rest and rest[0] != "_" else None
        t.add_unit(name, sym, rest[1:], mult=mult, delta=delta)
    return t
