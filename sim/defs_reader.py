"""Independent reader of pint's definition-file language, numeric part: for every unit of a file
(the bundled default_en.txt + constants_en.txt in particular) the factor to root units and the
dimension vector, computed by an own tokenizer / evaluator of the value expressions
(numbers, names with prefixes and plurals, * / ** ^ ( ), implicit multiplication).

Shares no code with pint. Floats throughout (the bundled file contains irrational constants
and ``** 0.5``), so comparisons with pint use a relative tolerance.
"""

from __future__ import annotations

import os
import re

from .names_model import NamesTable

_TOKEN = re.compile(r"""
    (?P<num>(?:\d+\.\d*|\.\d+|\d+)(?:[eE][+-]?\d+)?)
  | (?P<name>[^\W\d][\w]*)
  | (?P<op>\*\*|\^|[*/()+-])
  | (?P<ws>\s+)
""", re.VERBOSE | re.UNICODE)


def tokenize(s):
    out = []
    pos = 0
    while pos < len(s):
        m = _TOKEN.match(s, pos)
        if not m:
            raise ValueError(f"cannot tokenize {s!r} at {pos}")
        pos = m.end()
        if m.lastgroup == "ws":
            continue
        out.append((m.lastgroup, m.group()))
    return out


class Value:
    """factor * product(unit name ** exponent)"""

    __slots__ = ("f", "u")

    def __init__(self, f=1.0, u=None):
        self.f = f
        self.u = u or {}

    def mul(self, o, sign=1):
        u = dict(self.u)
        for k, e in o.u.items():
            u[k] = u.get(k, 0) + sign * e
            if u[k] == 0:
                del u[k]
        return Value(self.f * o.f if sign == 1 else self.f / o.f, u)

    def pow(self, e):
        return Value(self.f ** e, {k: v * e for k, v in self.u.items()})


class Parser:
    """expr := term (('+'|'-') term)* ; term := factor (('*'|'/'|implicit) factor)* ;
    factor := unary ('**'|'^' factor)? ; unary := '-' unary | atom ; atom := num | name | '(' expr ')'"""

    def __init__(self, toks):
        self.t = toks
        self.i = 0

    def peek(self):
        return self.t[self.i] if self.i < len(self.t) else (None, None)

    def take(self):
        tok = self.t[self.i]
        self.i += 1
        return tok

    def expr(self):
        v = self.term()
        while self.peek()[1] in ("+", "-"):
            op = self.take()[1]
            w = self.term()
            if v.u != w.u:
                raise ValueError("sum of different units")
            v = Value(v.f + w.f if op == "+" else v.f - w.f, v.u)
        return v

    def term(self):
        v = self.factor()
        while True:
            k, s = self.peek()
            if s == "*":
                self.take()
                v = v.mul(self.factor())
            elif s == "/":
                self.take()
                v = v.mul(self.factor(), -1)
            elif k in ("num", "name") or s == "(":
                v = v.mul(self.factor())  # implicit multiplication
            else:
                return v

    def factor(self):
        v = self.unary()
        if self.peek()[1] in ("**", "^"):
            self.take()
            e = self.factor()
            if e.u:
                raise ValueError("exponent with units")
            ex = e.f
            v = v.pow(int(ex) if float(ex).is_integer() else ex)
        return v

    def unary(self):
        if self.peek()[1] == "-":
            self.take()
            v = self.unary()
            return Value(-v.f, v.u)
        if self.peek()[1] == "+":
            self.take()
            return self.unary()
        return self.atom()

    def atom(self):
        k, s = self.take()
        if k == "num":
            return Value(float(s))
        if k == "name":
            return Value(1.0, {s: 1})
        if s == "(":
            v = self.expr()
            if self.take()[1] != ")":
                raise ValueError("missing )")
            return v
        raise ValueError(f"unexpected {s!r}")


def parse_value(s) -> Value:
    p = Parser(tokenize(s))
    v = p.expr()
    if p.i != len(p.t):
        raise ValueError(f"trailing input in {s!r}")
    return v


class NumericTable:
    """name -> raw definition; root(name) -> (factor, {base dimension: exponent})."""

    def __init__(self):
        self.names = NamesTable()
        self.defs = {}  # canonical name -> ("base", dim) | ("expr", Value, offset)
        self.ddims = {}
        self._memo = {}
        self.groups = {}  # name -> {"using": [...], "units": [...]}
        self.systems = {}  # name -> {"using": [...], "rules": [[new, old|None], ...]}
        self.defaults = {}
        self.toplevel = []  # units defined outside any group
        self.contexts = {}  # name -> {"aliases", "defaults", "rules": [(src dims, dst dims, equation)], "redefs"}

    @classmethod
    def from_file(cls, path):
        t = cls()
        t._read(path)
        return t

    def _read(self, path):
        block = None
        for raw in open(path, encoding="utf-8"):
            line = raw.split("#", 1)[0].strip()
            if not line:
                continue
            if line.startswith("@import"):
                self._read(os.path.join(os.path.dirname(path), line.split(None, 1)[1].strip()))
                continue
            if line.startswith("@end"):
                block = None
                continue
            if line.startswith("@alias"):
                parts = [x.strip() for x in line[len("@alias"):].split("=")]
                self.names.add_alias(parts[0], parts[1:])
                continue
            if line.startswith("@"):
                block = line.split()[0].split("(")[0]
                if block == "@context":
                    m = re.match(r"@context\s*(\((?P<d>.*)\))?\s+(?P<n>\w+)\s*(=(?P<a>.*))?", line)
                    defaults = {}
                    if m.group("d"):
                        for part in m.group("d").split(","):
                            k, _, v = part.partition("=")
                            defaults[k.strip()] = float(v)
                    self._ctx = {"name": m.group("n"), "aliases": [a.strip() for a in (m.group("a") or "").split("=") if a.strip()],
                                 "defaults": defaults, "rules": [], "redefs": []}
                    self.contexts[m.group("n")] = self._ctx
                if block in ("@group", "@system"):
                    head = line.split(None, 1)[1]
                    bname, _, using = head.partition(" using ")
                    cur = {"using": [x.strip() for x in using.split(",") if x.strip()]}
                    if block == "@group":
                        cur["units"] = []
                        self.groups[bname.strip()] = cur
                    else:
                        cur["rules"] = []
                        cur["using"] = cur["using"] or ["root"]
                        self.systems[bname.strip()] = cur
                    self._cur = cur
                continue
            if block == "@system":
                new, _, old = line.partition(":")
                self._cur["rules"].append([new.strip(), old.strip() or None])
                continue
            if block == "@defaults":
                k, _, v = line.partition("=")
                self.defaults[k.strip()] = v.strip()
                continue
            if block == "@context":
                self._context_line(raw_line=line)
                continue
            parts = [x.strip() for x in line.split("=")]
            name, value, rest = parts[0], parts[1], parts[2:]
            if name.startswith("["):
                self.ddims[name] = parse_dim(value)
                continue
            if name.endswith("-"):
                sym = rest[0].rstrip("-") if rest and rest[0] != "_" else None
                self.names.add_prefix(name.rstrip("-"), parse_value(value).f, sym, [a.rstrip("-") for a in rest[1:]])
                continue
            main, *mods = value.split(";")
            mods = dict((m.split(":")[0].strip(), m.split(":")[1].strip()) for m in mods)
            sym = rest[0] if rest and rest[0] != "_" else None
            offset = parse_value(mods["offset"]).f if "offset" in mods else 0.0
            mult = "logbase" not in mods and offset == 0.0
            self.names.add_unit(name, sym, rest[1:], mult=mult, delta="logbase" not in mods)
            if block == "@group":
                self._cur["units"].append(name)
            else:
                self.toplevel.append(name)
            main = main.strip()
            if main.startswith("["):
                self.defs[name] = ("base", parse_dim(main))
            else:
                self.defs[name] = ("expr", parse_value(main), offset)
            if not mult and "logbase" not in mods:
                self.defs["delta_" + name] = ("expr", parse_value(main), 0.0)

    def _context_line(self, raw_line):
        line = raw_line
        if ":" in line and ("->" in line):
            rel, eq = line.split(":", 1)
            bidir = "<->" in rel
            a, b = rel.split("<->" if bidir else "->")
            self._ctx["rules"].append((parse_dim(a), parse_dim(b), eq.strip()))
            if bidir:
                self._ctx["rules"].append((parse_dim(b), parse_dim(a), eq.strip()))
        elif "=" in line:
            self._ctx["redefs"].append(line)

    def dimvec(self, d):
        """expand derived dimension names"""
        out = {}
        for k, e in d.items():
            if k in self.ddims:
                for kk, ee in self.dimvec(self.ddims[k]).items():
                    out[kk] = out.get(kk, 0) + ee * e
            elif k != "[]":
                out[k] = out.get(k, 0) + e
        return {k: v for k, v in out.items() if v}

    def root(self, name, depth=0):
        """(factor, dimension vector, root-unit monomial) of a canonical unit name."""
        if name in self._memo:
            return self._memo[name]
        if depth > 60:
            raise RecursionError(name)
        d = self.defs[name]
        if d[0] == "base":
            dims = self.dimvec(d[1])
            res = (1.0, dims, {name: 1})  # a base unit is its own root unit, dimensionless ones included
        else:
            v = d[1]
            f, dims, roots = v.f, {}, {}
            for spelled, e in v.u.items():
                rs = self.names.readings(spelled)
                if not rs:
                    raise KeyError(spelled)
                pn, un = sorted(rs)[0]
                uf, ud, ur = self.root(un, depth + 1)
                if pn:
                    uf = uf * self.names.prefixes[pn]["factor"]
                f *= uf ** e
                for k, x in ud.items():
                    dims[k] = dims.get(k, 0) + x * e
                for k, x in ur.items():
                    roots[k] = roots.get(k, 0) + x * e
            res = (f, {k: v for k, v in dims.items() if v}, {k: v for k, v in roots.items() if v})
        self._memo[name] = res
        return res


def parse_dim(s):
    v = parse_value(s.replace("[", " DIM_").replace("]", "_MID "))
    return {"[" + k[4:-4] + "]": e for k, e in v.u.items()}


class DefaultSystemsModel:
    """Groups, systems and base-unit substitution of a definition file, by own algebra."""

    def __init__(self, table: NumericTable):
        self.t = table
        self.groups = {"root": {"units": set(table.toplevel), "using": set(table.groups)}}
        for g, d in table.groups.items():
            self.groups[g] = {"units": set(d["units"]), "using": set(d["using"])}
            self.groups["root"]["units"] |= set(d["units"])
        dg = table.defaults.get("group")
        if dg:
            grouped = set()
            for g in table.groups:
                grouped |= self.members(g)
            self.groups.setdefault(dg, {"units": set(), "using": set()})
            self.groups["root"]["using"].add(dg)
            self.groups[dg]["units"] |= self.groups["root"]["units"] - grouped
        self.systems = table.systems

    def members(self, g, seen=None):
        seen = seen or set()
        if g in seen or g not in self.groups:
            return set()
        seen.add(g)
        out = set(self.groups[g]["units"])
        for h in self.groups[g]["using"]:
            out |= self.members(h, seen)
        return out

    def sys_members(self, s):
        out = set()
        for g in self.systems[s]["using"]:
            out |= self.members(g)
        return out

    def canonical(self, spelled):
        pn, un = sorted(self.t.names.readings(spelled))[0]
        return pn, un

    def root_of_spelled(self, spelled):
        pn, un = self.canonical(spelled)
        f, dims, roots = self.t.root(un)
        if pn:
            f = f * self.t.names.prefixes[pn]["factor"]
        return f, roots

    def substitution(self, s):
        out = {}
        for new, old in self.systems[s]["rules"]:
            _, roots = self.root_of_spelled(new)
            pn, un = self.canonical(new)
            newname = pn + un
            if old is None:
                (old, a), = roots.items()
            a = roots[old]
            m = {newname: 1.0 / a}
            for o, b in roots.items():
                if o != old:
                    m[o] = -b / a
            out[old] = m
        return out

    def expected_base(self, name, s):
        """(factor, {unit: exponent}) with 1 name == factor * units in the base units of system s."""
        f, dims, roots = self.t.root(name)
        if s is None:
            return f, dict(roots)
        sub = self.substitution(s)
        dest = {}
        for r, e in roots.items():
            for k, x in (sub[r].items() if r in sub else [(r, 1.0)]):
                dest[k] = dest.get(k, 0.0) + x * e
        dest = {k: v for k, v in dest.items() if abs(v) > 1e-12}
        fd = 1.0
        for k, e in dest.items():
            kf, _ = self.root_of_spelled(k)
            fd *= kf ** e
        return f / fd, dest


def _dimkey(d):
    return tuple(sorted((k, round(float(v), 9)) for k, v in d.items() if abs(v) > 1e-12))


class DefaultContextsModel:
    """Conversions under a stack of bundled contexts, by own evaluation of the rule equations."""

    def __init__(self, table: NumericTable):
        self.t = table
        self.rules = {}
        for name, c in table.contexts.items():
            self.rules[name] = [(_dimkey(table.dimvec(a)), _dimkey(table.dimvec(b)), eq) for a, b, eq in c["rules"]]
        self.alias = {}
        for name, c in table.contexts.items():
            self.alias[name] = name
            for a in c["aliases"]:
                self.alias[a] = name

    def quantity(self, x, units_str):
        """x * units as (magnitude in root units, root monomial, dimension key)"""
        v = self.expand(parse_value(units_str))
        return x * v[0], v[1], v[2]

    def expand(self, val: Value, env=None):
        """a Value over spelled names -> (factor, root monomial, dims) ; env binds names to expanded triples"""
        f, roots, dims = val.f, {}, {}
        for spelled, e in val.u.items():
            if env and spelled in env:
                uf, ur, ud = env[spelled]
            else:
                rs = self.t.names.readings(spelled)
                if not rs:
                    raise KeyError(spelled)
                pn, un = sorted(rs)[0]
                uf, ud, ur = self.t.root(un)
                if pn:
                    uf = uf * self.t.names.prefixes[pn]["factor"]
            f *= uf ** e
            for k, x in ur.items():
                roots[k] = roots.get(k, 0) + x * e
            for k, x in ud.items():
                dims[k] = dims.get(k, 0) + x * e
        return f, {k: v for k, v in roots.items() if abs(v) > 1e-12}, {k: v for k, v in dims.items() if abs(v) > 1e-12}

    def convert(self, x, src, dst, stack):
        """stack: oldest first, entries (context name, {param: (value, units string)}).
        Returns set of admissible outcomes: ('val', float) / ('err',)"""
        mag, roots, dims = self.quantity(x, src)
        df, droots, ddims = self.expand(parse_value(dst))
        ks, kd = _dimkey(dims), _dimkey(ddims)
        if ks == kd:
            return {("val", mag / df)}
        edges = {}
        for cname, params in stack:
            for a, b, eq in self.rules[cname]:
                edges[(a, b)] = (cname, params, eq)
        # all shortest paths
        adj = {}
        for (a, b) in edges:
            adj.setdefault(a, []).append(b)
        dist = {ks: 0}
        frontier = [ks]
        while frontier and kd not in dist:
            nxt = []
            for n in frontier:
                for m2 in adj.get(n, ()):
                    if m2 not in dist:
                        dist[m2] = dist[n] + 1
                        nxt.append(m2)
            frontier = nxt
        if kd not in dist:
            return {("err",)}
        paths = []

        def back(node, acc):
            if len(paths) > 32:
                return
            if node == ks:
                paths.append(list(reversed(acc)))
                return
            for (a, b) in edges:
                if b == node and a in dist and dist[a] == dist[node] - 1:
                    back(a, acc + [(a, b)])

        back(kd, [])
        outs = set()
        for path in paths:
            cur = (mag, roots, dims)
            for e in path:
                cname, params, eq = edges[e]
                env = {"value": cur}
                declared = self.t.contexts[cname]["defaults"]
                for p, dv in declared.items():
                    env[p] = (dv, {}, {})
                for p, (pv, pu) in params.items():
                    if p in declared:
                        pf, pr, pd = self.expand(parse_value(pu)) if pu else (1.0, {}, {})
                        env[p] = (pv * pf, pr, pd)
                try:
                    cur = self.expand(parse_value(eq), env)
                except ZeroDivisionError:
                    cur = None
                    break
            if cur is None:
                outs.add(("zerodiv",))
            elif _dimkey(cur[2]) != kd:
                outs.add(("err",))
            else:
                outs.add(("val", cur[0] / df))
        return outs
