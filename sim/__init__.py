"""Deterministic simulation with fault injection for hgrecco/pint (see /verif/DESIGN.md)."""
