"""Declarative definition specs: seeded generation, rendering to pint's definition-file
language, and an exact (fractions.Fraction) reference calculator that shares no code
with pint.

A spec is a JSON-able dict:

  dims      : ["[d0]", ...]                       base dimensions (each has one base unit)
  ddims     : [{"name": "[speed]", "ref": {"[d0]": 1, "[d1]": -1}}]
  prefixes  : [{"name","symbol"|None,"aliases":[...],"factor":"1e3"}]
  units     : [{"name","symbol"|None,"aliases":[...],"factor":"2.5","ref":{name:exp}}  derived
               {"name",...,"dim":"[d0]"}                                              base
               {..., "offset": "273.15"}                                               offset unit
              ]
  aliases   : [{"unit": name, "aliases": [...]}]       (@alias lines)
  groups    : [{"name","using":[...]}]   members: the units carrying "group": name
  systems   : [{"name","using":[...],"rules":[[new, old|None], ...]}]
  contexts  : see worlds/ctx.py
  defaults  : {"group": .., "system": ..}

Factors are decimal literals so that they are exact in Fraction and Decimal registries.
"""

from __future__ import annotations

from fractions import Fraction

from .core import frac


# --------------------------------------------------------------------------- helpers
def mono_str(m: dict, one: str = "1") -> str:
    """Render a monomial {name: int exp} as an expression pint's parser reads."""
    num = [(k, v) for k, v in m.items() if v > 0]
    den = [(k, -v) for k, v in m.items() if v < 0]
    def p(k, v):
        return k if v == 1 else f"{k} ** {v}"
    s = " * ".join(p(k, v) for k, v in num) or one
    for k, v in den:
        s += " / " + p(k, v)
    return s


def mono_mul(a: dict, b: dict, eb: int = 1) -> dict:
    out = dict(a)
    for k, v in b.items():
        nv = out.get(k, 0) + v * eb
        if nv:
            out[k] = nv
        else:
            out.pop(k, None)
    return out


def vec_key(v: dict) -> tuple:
    return tuple(sorted((k, e) for k, e in v.items() if e))


DEC_FACTORS = ["2", "3", "4", "5", "8", "10", "12", "0.5", "0.25", "2.5", "1.5", "0.125", "6", "7", "20", "0.2", "1.25", "16", "0.75", "9"]


# --------------------------------------------------------------------------- rendering
def render_unit(u: dict) -> str:
    parts = [u["name"]]
    if "dim" in u:
        rhs = u["dim"]
    else:
        m = mono_str(u["ref"], one="1") if u["ref"] else ""
        rhs = u["factor"] if not m else (m if u["factor"] == "1" and u.get("bare") else f"{u['factor']} * {m}")
        if u.get("offset") is not None:
            rhs += f"; offset: {u['offset']}"
    parts.append(rhs)
    sym = u.get("symbol")
    al = list(u.get("aliases", ()))
    if sym:
        parts.append(sym)
    elif al:
        parts.append("_")
    parts.extend(al)
    return " = ".join(parts)


def render_prefix(p: dict) -> str:
    parts = [p["name"] + "-", p["factor"]]
    sym = p.get("symbol")
    al = list(p.get("aliases", ()))
    if sym:
        parts.append(sym + "-")
    elif al:
        parts.append("_")
    parts.extend(a + "-" for a in al)
    return " = ".join(parts)


def render_ddim(d: dict) -> str:
    return f"{d['name']} = {mono_str(d['ref'])}"


def render_group(g: dict, units=()) -> list:
    """A group block; its members are the units of the spec that carry ``"group": name``
    (pint's file syntax only allows unit *definitions* inside a group)."""
    head = "@group " + g["name"]
    if g.get("using"):
        head += " using " + ", ".join(g["using"])
    out = [head]
    for u in units:
        if u.get("group") == g["name"]:
            out.append("    " + render_unit(u))
    out.append("@end")
    return out


def render_system(s: dict) -> list:
    head = "@system " + s["name"]
    if s.get("using"):
        head += " using " + ", ".join(s["using"])
    out = [head]
    for new, old in s.get("rules", ()):
        out.append("    " + (new if old is None else f"{new}:{old}"))
    out.append("@end")
    return out


def render_plain(spec: dict) -> list:
    """Prefixes, base and derived units, derived dimensions, aliases, groups, systems, defaults."""
    out = []
    if spec.get("defaults"):
        out.append("@defaults")
        for k, v in spec["defaults"].items():
            out.append(f"    {k} = {v}")
        out.append("@end")
    for p in spec.get("prefixes", ()):
        out.append(render_prefix(p))
    for u in spec.get("units", ()):
        if not u.get("group"):
            out.append(render_unit(u))
    for d in spec.get("ddims", ()):
        if not d.get("late"):  # a late dimension is known to the model only; the run defines it (or not)
            out.append(render_ddim(d))
    for g in spec.get("groups", ()):
        out.extend(render_group(g, spec.get("units", ())))
    for a in spec.get("aliases", ()):
        out.append("@alias " + " = ".join([a["unit"], *a["aliases"]]))
    for s in spec.get("systems", ()):
        out.extend(render_system(s))
    return out


# --------------------------------------------------------------------------- reference table
class RefTable:
    """Exact reference semantics of a spec's units: every unit has a root factor and a
    dimension vector over the base dimensions. No memoisation, no laziness, no pint."""

    def __init__(self, spec: dict):
        self.dims = list(spec["dims"])
        self.ddims = {d["name"]: dict(d["ref"]) for d in spec.get("ddims", ())}
        self.prefixes = {p["name"]: p for p in spec.get("prefixes", ())}
        self.units = {}
        self.order = []
        for u in spec.get("units", ()):
            self.add_unit(u)
        for a in spec.get("aliases", ()):
            u = dict(self.units[a["unit"]])
            u["aliases"] = list(u.get("aliases", ())) + list(a["aliases"])
            self.units[a["unit"]] = u

    def copy(self) -> "RefTable":
        t = object.__new__(RefTable)
        t.dims = self.dims
        t.ddims = self.ddims
        t.prefixes = self.prefixes
        t.units = dict(self.units)
        t.order = list(self.order)
        return t

    def add_unit(self, u: dict):
        if u["name"] not in self.units:
            self.order.append(u["name"])
        self.units[u["name"]] = u

    # -- spelling tables (exact names only; prefix+unit+plural is the names model's business)
    def spellings(self) -> dict:
        """spelling -> canonical unit name for every name, symbol and alias."""
        out = {}
        for n in self.order:
            u = self.units[n]
            out[n] = n
            if u.get("symbol"):
                out[u["symbol"]] = n
            for a in u.get("aliases", ()):
                out[a] = n
        return out

    def prefix_spellings(self) -> dict:
        out = {}
        for p in self.prefixes.values():
            out[p["name"]] = p["name"]
            if p.get("symbol"):
                out[p["symbol"]] = p["name"]
            for a in p.get("aliases", ()):
                out[a] = p["name"]
        return out

    def resolve(self, spelling: str):
        """(prefix name or '', canonical unit name) for a spelling the generator produced
        (exact name, or a known prefix spelling followed by a known unit spelling)."""
        sp = self.spellings()
        if spelling in sp:
            return "", sp[spelling]
        for ps, pn in self.prefix_spellings().items():
            if spelling.startswith(ps) and spelling[len(ps):] in sp:
                return pn, sp[spelling[len(ps):]]
        raise KeyError(spelling)

    # -- semantics
    def dim_of_name(self, name: str) -> dict:
        """Dimension vector of a dimension name (base or derived)."""
        if name in self.ddims:
            out = {}
            for k, e in self.ddims[name].items():
                out = mono_mul(out, self.dim_of_name(k), e)
            return out
        return {name: 1}

    def dimvec(self, dm: dict) -> dict:
        """Dimension vector of a monomial of dimension names."""
        out = {}
        for k, e in dm.items():
            out = mono_mul(out, self.dim_of_name(k), e)
        return out

    def root_of_unit(self, name: str, _depth=0):
        """(factor, dimension vector) of one canonical unit name (multiplicative part)."""
        if _depth > 50:
            raise RecursionError(name)
        u = self.units[name]
        if "dim" in u:
            return Fraction(1), self.dim_of_name(u["dim"]) if u["dim"] != "[]" else {}
        f = frac(u["factor"])
        d = {}
        for k, e in u["ref"].items():
            kf, kd = self.root_of_spelling(k, _depth + 1)
            f *= kf**e
            d = mono_mul(d, kd, e)
        return f, d

    def root_of_spelling(self, spelling: str, _depth=0):
        pn, un = self.resolve(spelling)
        f, d = self.root_of_unit(un, _depth)
        if pn:
            f *= frac(self.prefixes[pn]["factor"])
        return f, d

    def root(self, mono: dict):
        """(factor, dimension vector) of a monomial of unit spellings."""
        f = Fraction(1)
        d = {}
        for k, e in mono.items():
            kf, kd = self.root_of_spelling(k)
            f *= kf**e
            d = mono_mul(d, kd, e)
        return f, d

    def base_unit_of_dim(self) -> dict:
        """base dimension -> name of its base unit."""
        return {u["dim"]: n for n, u in self.units.items() if "dim" in u}

    def canonical(self, mono: dict) -> dict:
        """Monomial with every spelling replaced by prefix name + unit name."""
        out = {}
        for k, e in mono.items():
            pn, un = self.resolve(k)
            out = mono_mul(out, {pn + un: 1}, e)
        return out


# --------------------------------------------------------------------------- general generator
BASE_NAMES = ["ua", "ub", "uc", "ud"]


def gen_general(rng, opts=None) -> dict:
    """A general small world: base and derived units, prefixes, derived dimensions, an optional
    offset unit, groups with a ``using`` DAG, systems with both rule forms, simple contexts
    (rules with parameters, redefinitions) and a @defaults block. Names are chosen so that no
    spelling collides by accident (prefix symbols are upper-case, unit names lower-case and
    never end in 's')."""
    opts = opts or {}
    nd = rng.randint(2, 4)
    dims = [f"[d{i}]" for i in range(nd)]
    units = [{"name": BASE_NAMES[i], "dim": dims[i]} for i in range(nd)]
    base = [u["name"] for u in units]
    if rng.random() < 0.5:
        units[0]["symbol"] = "A"
    prefixes = [
        {"name": "kilo", "symbol": "K", "aliases": [], "factor": "1e3"},
        {"name": "milli", "symbol": "M", "aliases": [], "factor": "1e-3"},
    ]
    if rng.random() < 0.5:
        prefixes.append({"name": "hecto", "symbol": "H", "aliases": ["hect"] if rng.random() < 0.5 else [], "factor": "1e2"})
    nder = rng.randint(3, 8)
    derived = []
    for i in range(nder):
        pool = base + [d["name"] for d in derived]
        ref = {}
        for _ in range(rng.randint(1, 2)):
            ref = mono_mul(ref, {rng.choice(pool): rng.choice([1, 1, 1, -1, 2])})
        if not ref:
            ref = {rng.choice(base): 1}
        u = {"name": f"v{i}", "factor": rng.choice(DEC_FACTORS), "ref": ref}
        if rng.random() < 0.4:
            u["symbol"] = f"V{i}"
        if rng.random() < 0.3:
            u["aliases"] = [f"v{i}alt"] + ([f"v{i}alt2"] if rng.random() < 0.3 else [])
        derived.append(u)
    units.extend(derived)
    if opts.get("offset", True) and rng.random() < 0.4:
        units.append({"name": "oa", "factor": rng.choice(["1.5", "2", "0.5"]), "ref": {base[0]: 1},
                      "offset": rng.choice(["10", "32", "2.5"])})
    spec = {"dims": dims, "prefixes": prefixes, "units": units, "ddims": []}
    for i in range(rng.randint(0, 2)):
        ref = {}
        while not ref:
            ref = mono_mul({rng.choice(dims): 1}, {rng.choice(dims): rng.choice([-1, 1, -2])})
        spec["ddims"].append({"name": f"[s{i}]", "ref": ref})
    if rng.random() < 0.4 and derived:
        d = rng.choice(derived)
        spec["aliases"] = [{"unit": d["name"], "aliases": [d["name"] + "aka"]}]
    table = RefTable(spec)
    # groups
    groups = []
    if opts.get("groups", True):
        ng = rng.randint(0, 3)
        for gi in range(ng):
            using = [g["name"] for g in groups if rng.random() < 0.5]
            groups.append({"name": f"g{gi}", "using": using})
        for d in derived:
            if groups and rng.random() < 0.5:
                d["group"] = rng.choice(groups)["name"]
    spec["groups"] = groups
    # systems
    systems = []
    if opts.get("systems", True) and derived:
        for si in range(rng.randint(0, 2)):
            rules, taken = [], set()
            cands = list(derived)
            rng.shuffle(cands)
            for d in cands:
                if len(rules) >= 2:
                    break
                _, vdim = table.root_of_unit(d["name"])
                ones = [dim for dim, e in vdim.items() if abs(e) == 1]
                if len(vdim) == 1 and ones and rng.random() < 0.5:
                    old = table.base_unit_of_dim()[ones[0]]
                    if old not in taken and vdim[ones[0]] == 1:
                        rules.append([d["name"], None])
                        taken.add(old)
                elif ones:
                    old = table.base_unit_of_dim()[rng.choice(ones)]
                    if old not in taken:
                        rules.append([d["name"], old])
                        taken.add(old)
            using = [g["name"] for g in groups if rng.random() < 0.6]
            systems.append({"name": f"sy{si}", "using": using, "rules": rules})
    spec["systems"] = systems
    # contexts
    contexts = []
    if opts.get("contexts", True):
        bod = table.base_unit_of_dim()
        for ci in range(rng.randint(0, 2)):
            ctx = {"name": f"c{ci}", "aliases": [f"c{ci}x"] if rng.random() < 0.5 else [], "defaults": {},
                   "rules": [], "redefs": []}
            for _ in range(rng.randint(0, 3)):
                if nd < 2:
                    break
                a, b = rng.sample(dims, 2)
                if any(r["src"] == {a: 1} and r["dst"] == {b: 1} for r in ctx["rules"]):
                    continue
                par = ["n1", rng.choice([1, -1])] if rng.random() < 0.5 else None
                ctx["rules"].append({"src": {a: 1}, "dst": {b: 1}, "bidir": False, "kind": "lin",
                                     "K": rng.choice(DEC_FACTORS), "par": par,
                                     "M": {bod[b]: 1, bod[a]: -1}})
                if par:
                    ctx["defaults"].setdefault("n1", rng.choice(["2", "3", "0.5"]))
            if derived and rng.random() < 0.6:
                v = rng.choice(derived)
                ctx["redefs"].append({"name": v["name"], "factor": rng.choice(DEC_FACTORS), "ref": dict(v["ref"])})
            contexts.append(ctx)
    spec["contexts"] = contexts
    # pint's @defaults block needs both keys
    if groups and systems and rng.random() < 0.5:
        spec["defaults"] = {"group": rng.choice(groups)["name"], "system": rng.choice(systems)["name"]}
    return spec


def rule_equation(r: dict) -> str:
    m = mono_str(r["M"], one="1")
    s = f"value * {r['K']} * {m}" if r["kind"] == "lin" else f"{r['K']} * {m} / value"
    if r.get("par"):
        p, e = r["par"]
        s += f" * {p}" if e == 1 else (f" / {p}" if e == -1 else f" * {p} ** {e}")
    return s


def render_simple_context(ctx: dict) -> list:
    head = "@context"
    if ctx["defaults"]:
        head += "(" + ", ".join(f"{k}={v}" for k, v in ctx["defaults"].items()) + ")"
    head += " " + " = ".join([ctx["name"], *ctx["aliases"]])
    out = [head]
    for r in ctx["rules"]:
        arrow = "<->" if r["bidir"] else "->"
        out.append(f"    {mono_str(r['src'])} {arrow} {mono_str(r['dst'])}: {rule_equation(r)}")
    for rd in ctx["redefs"]:
        out.append(f"    {rd['name']} = {rd['factor']} * {mono_str(rd['ref'], one='1')}")
    out.append("@end")
    return out


def render_all(spec: dict) -> list:
    lines = render_plain(spec)
    for ctx in spec.get("contexts", ()):
        lines.extend(render_simple_context(ctx))
    return lines
