"""C11 on the bundled registry: activation histories over the seven bundled contexts
(spectroscopy, boltzmann, energy, chemistry, textile, Gaussian, ESU) with probe conversions
whose expected values come from an independent reader and evaluator of default_en.txt
(sim/defs_reader.py::DefaultContextsModel: own parser of the rule equations, own search for
all shortest chains)."""

from __future__ import annotations

import os

from .. import core
from ..core import Collector, FaultPlan, Log, Violation, ddmin_list, exc_name

CONTEXTS = ["spectroscopy", "boltzmann", "energy", "chemistry", "textile", "Gaussian", "ESU"]
SPELL = {"spectroscopy": ["spectroscopy", "sp"], "chemistry": ["chemistry", "chem"], "Gaussian": ["Gaussian", "Gau"],
         "ESU": ["ESU", "esu"], "boltzmann": ["boltzmann"], "energy": ["energy"], "textile": ["textile"]}
PARAMS = {
    "spectroscopy": lambda rng: {"n": (rng.choice([1, 1.33, 2]), "")},
    "chemistry": lambda rng: {"mw": (rng.choice([18.0, 58.44]), "gram/mole"), "volume": (rng.choice([2.0, 0.5]), "liter"),
                              "solvent_mass": (rng.choice([1.5, 3.0]), "kilogram")},
}
PAIRS = [("nm", "terahertz"), ("terahertz", "nm"), ("nm", "eV"), ("eV", "nm"), ("1/cm", "micrometer"), ("1/cm", "eV"),
         ("kelvin", "eV"), ("eV", "kelvin"), ("kelvin", "terahertz"), ("kelvin", "nm"), ("eV", "kJ/mol"), ("kJ/mol", "eV"),
         ("kg", "joule"), ("joule", "gram"), ("kg", "terahertz"), ("mol", "gram"), ("gram", "mol"), ("mol/liter", "gram/liter"),
         ("mol/liter", "mol"), ("mol/kg", "mol"), ("mol/kg", "mol/liter"), ("tex", "km/kg"), ("km/kg", "tex"),
         ("franklin", "coulomb"), ("coulomb", "franklin"), ("statvolt", "volt"), ("volt", "statvolt"), ("gauss", "tesla"),
         ("tesla", "gauss"), ("stattesla", "tesla"), ("ohm", "statohm"), ("farad", "statfarad"), ("maxwell", "weber"),
         ("oersted", "ampere/meter"), ("statampere", "ampere"), ("meter", "inch"), ("joule", "eV"), ("mol", "terahertz"),
         ("gram", "kelvin"), ("kJ/mol", "kelvin"), ("kJ/mol", "nm"), ("tex", "denier"), ("second", "meter")]

_MODEL = {}


def model():
    if "m" not in _MODEL:
        from ..defs_reader import DefaultContextsModel, NumericTable

        _MODEL["m"] = DefaultContextsModel(NumericTable.from_file(os.path.join(core.PINT_PATH, "pint", "default_en.txt")))
    return _MODEL["m"]


def generate(streams, prop):
    rng = streams.get("program")
    kr = streams.get("knobs")
    fr = streams.get("faults")
    steps = []

    def activation():
        names = [rng.choice(CONTEXTS) for _ in range(rng.choice([1, 1, 1, 2, 2, 3]))]
        kw = {}
        for n in names:
            if n in PARAMS:
                kw.update(PARAMS[n](rng))
        return [[n, rng.choice(SPELL[n])] for n in names], kw

    depth = 0
    for i in range(kr.choice([8, 14, 20, 30])):
        r = rng.random()
        if r < 0.25 and depth < 4:
            ctxs, kw = activation()
            steps.append({"k": "enable", "ctxs": ctxs, "kw": kw})
            depth += len(ctxs)
        elif r < 0.37 and depth:
            n = rng.choice([1, 1, 2, None])
            steps.append({"k": "disable", "n": n})
            depth = 0 if n is None else max(0, depth - n)
        else:
            a, b = rng.choice(PAIRS)
            st = {"k": "probe", "x": rng.choice([1.0, 2.0, 500.0, 0.25]), "src": a, "dst": b,
                  "form": rng.choice(["to", "to", "convert", "to_ctx", "compat_q", "ito"])}
            if st["form"] == "to_ctx" or (st["form"] in ("compat_q", "ito") and rng.random() < 0.5):
                st["ctxs"], st["kw"] = activation()
            steps.append(st)
    for i, st in enumerate(steps):
        st["id"] = i + 1
    rates = {}
    if fr.random() < 0.6:
        for site in ("miss:root_units", "miss:conversion_factor", "miss:dimensionality", "miss:parse_unit"):
            if fr.random() < 0.5:
                rates[site] = fr.choice([0.1, 0.5, 1.0])
    return {"world": "ctx", "prop": prop, "kind": "default", "knobs": {"numtype": "float"}, "program": steps,
            "faults": {"seed": fr.getrandbits(32), "rates": rates, "off": []}}


def shrink(case):
    prog = case["program"]
    for cand in ddmin_list(prog):
        yield dict(case, program=cand)
    if case["faults"]["rates"]:
        yield dict(case, faults=dict(case["faults"], rates={}))
    for idx, s in enumerate(prog):
        if s.get("ctxs") and len(s["ctxs"]) > 1:
            for j in range(len(s["ctxs"])):
                yield dict(case, program=prog[:idx] + [dict(s, ctxs=s["ctxs"][:j] + s["ctxs"][j + 1:])] + prog[idx + 1:])


def run_case(case, col: Collector, log: Log):
    pint = core.import_pint()
    m = model()
    plan = FaultPlan(case["faults"])
    ureg = pint.UnitRegistry()
    core.install_flaky(ureg, plan, col)
    stack = []  # oldest first: (canonical context name, params)

    def kwargs(kw):
        return {k: (ureg.Quantity(v, u) if u else v) for k, (v, u) in kw.items()}

    def entries(ctxs, kw):
        out = []
        for name, _ in ctxs:
            declared = m.t.contexts[name]["defaults"]
            out.append((name, {k: tuple(v) for k, v in kw.items() if k in declared}))
        return out

    try:
        for s in case["program"]:
            col.steps += 1
            plan.at_step(s["id"])
            core.install_flaky(ureg, plan, col)
            k = s["k"]
            if k == "enable":
                ureg.enable_contexts(*[sp for _, sp in s["ctxs"]], **kwargs(s["kw"]))
                stack.extend(entries(s["ctxs"], s["kw"]))
                col.trans("default-enable", len(stack))
                log.ev(s["id"], "enable", [n for n, _ in s["ctxs"]])
            elif k == "disable":
                ureg.disable_contexts(s["n"])
                if s["n"] is None:
                    stack.clear()
                else:
                    del stack[max(0, len(stack) - s["n"]):]
                log.ev(s["id"], "disable", s["n"])
            else:
                extra = entries(s["ctxs"], s["kw"]) if s.get("ctxs") else []
                args = [sp for _, sp in s.get("ctxs", [])]
                kw = kwargs(s.get("kw", {}))
                try:
                    if s["form"] in ("to", "to_ctx"):
                        got = ("val", float(ureg.Quantity(s["x"], s["src"]).to(s["dst"], *args, **kw).magnitude))
                    elif s["form"] == "ito":
                        q = ureg.Quantity(s["x"], s["src"])
                        q.ito(s["dst"], *args, **kw)
                        got = ("val", float(q.magnitude))
                    elif s["form"] == "convert":
                        got = ("val", float(ureg.convert(s["x"], s["src"], s["dst"])))
                    else:
                        got = ("bool", bool(ureg.Quantity(s["x"], s["src"]).is_compatible_with(s["dst"], *args, **kw)))
                except Exception as e:
                    got = ("err", exc_name(e))
                exp = m.convert(float(s["x"]), s["src"], s["dst"], stack + extra)
                col.checks += 1
                ok = False
                if s["form"] == "compat_q":
                    ok = got[0] == "bool" and got[1] in {e[0] == "val" for e in exp}
                else:
                    for e in exp:
                        if e[0] == "val" and got[0] == "val" and core.num_close(got[1], e[1], 1e-9):
                            ok = True
                        if e[0] == "err" and got == ("err", "DimensionalityError"):
                            ok = True
                if len(exp) > 1:
                    col.probe("several_shortest_chains")
                col.trans("default-probe", s["form"], got[0], min(len(stack), 4), bool(extra))
                log.ev(s["id"], "probe", s["src"], s["dst"], got)
                if not ok:
                    raise Violation("C11.value", s["id"], {
                        "registry": "default", "form": s["form"], "x": s["x"], "src": s["src"], "dst": s["dst"],
                        "stack": [[n, p] for n, p in stack], "per_call": extra, "expected_any_of": sorted(map(list, exp)),
                        "got": list(got)})
    except Violation as v:
        v.sig = f"C11.value/default/{v.detail['form']}/{v.detail['got'][0]}"
        return v
    finally:
        ureg.disable_contexts()
    return None
