"""World ``names`` (C08): unit-name resolution under lookup histories.

Generated registries with deliberately colliding spellings, and the bundled default registry
whose whole prefix x unit x plural product is dealt to the runs of a batch in seeded random
order, so that every string is met after a different history. Every lookup is compared with
the set of admissible readings computed by ``NamesTable`` (own reader of the definition
syntax), with earlier occurrences in the same run, and with a pristine registry that is
asked only that question (built anew for generated worlds; a forked copy of a just-built
registry for the default one).
"""

from __future__ import annotations

import copy
import functools
import json
import os
import random
from fractions import Fraction

from .. import core
from ..core import Collector, FaultPlan, HarnessError, Log, Violation, ddmin_list, derive, exc_name, norm_num, norm_units
from ..gen import render_all
from ..names_model import NamesTable, read_definition_file

NUMTYPES = {"float": float, "Fraction": Fraction}
DEFAULT_FILE = os.path.join(core.PINT_PATH, "pint", "default_en.txt")
CHUNK = 300
VIAS = ["parse_units", "parse_units", "get_name", "get_symbol", "parse_unit_name", "getattr", "contains", "Unit",
        "Quantity", "parse_expression", "compound"]


# =========================================================================== generation
def canonical_collisions(spec) -> set:
    """Spellings that coincide with prefix NAME + unit NAME of the same spec. Such a table is
    self-contradictory (the canonical name of the prefixed unit is also an exact spelling of
    something else), so it is not generated; see DESIGN.md (finding R10)."""
    pn = [p["name"] for p in spec["prefixes"]]
    un = [u["name"] for u in spec["units"]]
    canon = {p + u for p in pn for u in un}
    sp = set()
    for u in spec["units"]:
        sp |= {u["name"], u.get("symbol")} | set(u.get("aliases", ()))
    return canon & sp


def gen_spec(rng):
    for _ in range(50):
        spec = _gen_spec(rng)
        if not canonical_collisions(spec):
            return spec
    raise HarnessError("could not generate a collision-free spec")


def _gen_spec(rng):
    prefix_pool = [("kilo", "k"), ("milli", "m"), ("deka", "da"), ("deci", "d"), ("mega", "M"), ("kibi", "Ki"),
                   ("micro", "u"), ("hecto", "h")]
    factors = {"kilo": "1e3", "milli": "1e-3", "deka": "1e1", "deci": "1e-1", "mega": "1e6", "kibi": "1024",
               "micro": "1e-6", "hecto": "1e2"}
    prefixes = []
    for name, sym in rng.sample(prefix_pool, rng.randint(2, 4)):
        p = {"name": name, "symbol": sym if rng.random() < 0.85 else None, "aliases": [], "factor": factors[name]}
        if rng.random() < 0.25:
            p["aliases"] = [name[:3]]
        prefixes.append(p)
    pool = ["a", "b", "s", "m", "k", "x", "ab", "as", "ms", "ka", "kb", "da", "das", "kab", "mab", "abs", "xs", "B", "Ab",
            "AB", "mol", "min", "meter", "sec", "secs", "gram", "kgram", "kilogram", "dab", "ks", "mm", "am", "sa", "bs",
            "ua", "dd", "kk", "M", "Ms", "kibi", "kilo", "deci", "decim", "hs", "ha", "us", "u"]
    rng.shuffle(pool)
    units = []
    nunits = rng.randint(4, 10)
    used = set()

    def take():
        while pool:
            s = pool.pop()
            if s not in used:
                used.add(s)
                return s
        return None

    for i in range(nunits):
        name = take()
        if name is None:
            break
        u = {"name": name}
        if i == 0:
            u["dim"] = "[d0]"
        else:
            u["factor"] = rng.choice(["2", "3", "5", "0.5", "12", "60", "7"])
            u["ref"] = {rng.choice(units)["name"]: 1}
        if rng.random() < 0.5:
            u["symbol"] = take()
        if rng.random() < 0.3:
            u["aliases"] = [a for a in [take()] if a]
        units.append(u)
    if rng.random() < 0.6:
        units.append({"name": "oa", "symbol": "oA" if rng.random() < 0.5 else None, "factor": "2", "ref": {units[0]["name"]: 1},
                      "offset": "10", "aliases": ["oalt"] if rng.random() < 0.4 else []})
    if rng.random() < 0.3:
        units.append({"name": "delta_x", "factor": "4", "ref": {units[0]["name"]: 1}})
    spec = {"dims": ["[d0]"], "prefixes": prefixes, "units": units, "ddims": [], "groups": [], "systems": [], "contexts": []}
    derived = [u for u in units if "dim" not in u and "offset" not in u]
    if derived and rng.random() < 0.5:
        v = rng.choice(derived)
        spec["contexts"] = [{"name": "cx", "aliases": [], "defaults": {}, "rules": [],
                             "redefs": [{"name": v["name"], "factor": "9", "ref": dict(v["ref"])}]}]
    spec["spare"] = [s for s in pool if s not in used][:8]
    return spec


def all_strings(table: NamesTable, rng, n):
    """Lookup strings biased towards collisions: products prefix x unit x plural, case variants, near misses."""
    us = sorted(table.unit_spellings())
    ps = sorted(table.prefix_spellings())
    out = []
    for _ in range(n):
        r = rng.random()
        s = rng.choice(ps) + rng.choice(us) + rng.choice(["", "", "s"])
        if r < 0.10:
            s = rng.choice(ps) + s  # double prefix: no reading
        elif r < 0.18:
            s = s.upper() if rng.random() < 0.5 else s.lower()
        elif r < 0.24:
            s = s + rng.choice(["s", "x", "ss"])
        elif r < 0.28:
            s = rng.choice(["zz", "q", "nosuch", "kilo", "s", "ss"])
        out.append(s)
    return out


class ProgGen:
    def __init__(self, rng, spec):
        self.rng = rng
        self.spec = spec
        self.table = NamesTable.from_spec(spec)
        self.nid = 0
        self.ndef = 0
        self.pool = all_strings(self.table, rng, 40)

    def sid(self):
        self.nid += 1
        return self.nid

    def lookup(self, s=None):
        rng = self.rng
        s = s or (rng.choice(self.pool) if rng.random() < 0.7 else all_strings(self.table, rng, 1)[0])
        via = rng.choice(VIAS)
        st = {"id": self.sid(), "k": "look", "s": s, "via": via}
        if via in ("parse_units", "get_name", "get_symbol", "parse_unit_name", "parse_expression") and rng.random() < 0.3:
            st["cs"] = rng.random() < 0.5
        if via == "parse_units" and rng.random() < 0.2:
            st["as_delta"] = rng.random() < 0.5
        if via == "compound":
            st["s2"] = rng.choice(self.pool)
            st["e"] = rng.choice([1, 2, -1])
            if rng.random() < 0.35:
                st["as_delta"] = rng.random() < 0.5  # the substitution switched on or off for this call
            if rng.random() < 0.2:
                st["s2"] = "nosuchunit"  # the first factor is resolved (and registered) before the failure
        return st

    def step(self):
        rng = self.rng
        if getattr(self, "pending", None):
            return self.pending.pop(0)
        r = rng.random()
        if r < 0.82:
            return self.lookup()
        if r < 0.92:
            self.ndef += 1
            spare = self.spec.get("spare", [])
            us = sorted(self.table.unit_spellings())
            ps = [p for p in sorted(self.table.prefix_spellings()) if p]
            base_units = [u["name"] for u in self.spec["units"] if u.get("offset") is None]
            target = rng.choice(base_units)  # only units of the file: deleting a step never orphans a reference
            kind = rng.random()
            plural_twin = False
            if kind < 0.35 and ps:
                # a new spelling that used to be read as prefix + unit
                name = rng.choice(ps) + rng.choice(us)
            elif kind < 0.45 and ps:
                # the plural of a unit spelling becomes a unit of its own: prefixed strings that used to be read as
                # prefix + unit + plural s now have a second reading, and parses memoised before must not be served
                name = rng.choice(us) + "s"
                plural_twin = True
            elif kind < 0.6 and spare:
                name = spare[self.ndef % len(spare)] + str(self.ndef)
            else:
                name = f"nu{self.ndef}"
            # (a run-time definition may take the canonical name prefix name + unit name of an implicitly
            # registered unit - finding R10, repaired; the static table of a generated world never does)
            if name in self.table.unit_spellings():
                name = f"nu{self.ndef}"
            form = rng.random()
            if form < 0.5:
                line = f"{name} = 3 * {target}"
                self.table.add_unit(name)
            elif form < 0.8:
                line = f"@alias {target} = {name}"
                self.table.add_alias(target, [name])
            else:
                if name in self.table.prefix_spellings():
                    name = f"nq{self.ndef}"  # a spelling already taken by a prefix would be a redefinition
                pname = f"np{self.ndef}"
                line = f"{pname}- = 1e{rng.choice([2, 3, -2])} = {name}-"
                self.table.add_prefix(pname, None, name, [])
            self.pool.extend([name, name + "s"] + [p + name for p in ps[:2]])
            if plural_twin and name.endswith("s") and name not in (f"nu{self.ndef}", f"nq{self.ndef}"):
                p1, p2 = rng.choice(ps), rng.choice(ps)
                first = self.lookup(p1 + name)
                define = {"id": self.sid(), "k": "define", "line": line}
                self.pending = [define, self.lookup(p2 + name), self.lookup(p1 + name)]
                return first
            if kind < 0.35 and ps and rng.random() < 0.5:
                # the spelling is looked up (and, as prefix + unit, registered) first, then defined, then looked up in
                # another letter case without regard to case
                first = self.lookup(name)
                define = {"id": self.sid(), "k": "define", "line": line}
                after = self.lookup(rng.choice([name.upper(), name.swapcase(), name.title(), name]))
                after["via"] = rng.choice(["parse_unit_name", "get_name", "get_symbol", "parse_units"])
                after.pop("s2", None), after.pop("e", None), after.pop("as_delta", None)
                after["cs"] = False
                self.pending = [define, after]
                return first
            return {"id": self.sid(), "k": "define", "line": line}
        if r < 0.96 and self.spec["contexts"]:
            return {"id": self.sid(), "k": rng.choice(["ctx_on", "ctx_off"])}
        return {"id": self.sid(), "k": "lru"}


# =========================================================================== default registry product
_PRODUCT = {}


def default_table():
    if "table" not in _PRODUCT:
        _PRODUCT["table"] = read_definition_file(DEFAULT_FILE)
    return _PRODUCT["table"]


def default_product(seed, pass_no):
    """The whole product prefix spelling x unit spelling x {'', 's'} as a list of chunks, one chunk per
    canonical unit (all its spellings, every prefix, both plural forms, in seeded random order; the order
    of the units is seeded too). Strings that register or hit the same implicitly defined units thus meet
    in one run, each time after another history."""
    key = (seed, pass_no)
    if key not in _PRODUCT:
        t = default_table()
        ps = sorted(t.prefix_spellings())  # includes '' (no prefix)
        by_unit = {}
        for sp, n in t.unit_spellings().items():
            by_unit.setdefault(n, []).append(sp)
        rng = random.Random(derive(seed, "C08-product", pass_no))
        units = sorted(by_unit)
        rng.shuffle(units)
        chunks = []
        for n in units:
            strings = [p + u + s for p in ps for u in sorted(by_unit[n]) for s in ("", "s")]
            rng.shuffle(strings)
            chunks.append(strings)
        _PRODUCT.clear()
        _PRODUCT["table"] = t
        _PRODUCT[key] = chunks
    return _PRODUCT[key]


def n_chunks():
    t = default_table()
    return len(set(t.unit_spellings().values()))


# =========================================================================== the world
class NamesWorld:
    name = "names"

    def __init__(self, prop):
        self.prop = prop

    def generate(self, streams, tier, index):
        kr = streams.get("knobs")
        knobs = {"numtype": kr.choice(["float", "Fraction"]), "case_sensitive": kr.random() < 0.75,
                 "lru": kr.choice([1, 8, 128, None]), "default_as_delta": kr.random() < 0.8}
        fr = streams.get("faults")
        rates = {}
        if fr.random() < 0.6:
            rates["miss:parse_unit"] = fr.choice([0.1, 0.5, 1.0])
            if fr.random() < 0.4:
                rates["miss:root_units"] = 0.3
        faults = {"seed": fr.getrandbits(32), "rates": rates, "off": []}
        if index % 4 == 0:
            # default registry: chunk number (index // 4) of the shuffled product
            k = index // 4
            nc = n_chunks()
            pr = streams.get("program")
            case = {"world": "names", "prop": self.prop, "kind": "default", "knobs": knobs, "chunk": k % nc,
                    "pass": k // nc, "faults": faults, "via_seed": pr.getrandbits(32)}
            case["knobs"]["case_sensitive"] = True
            return case
        spec = gen_spec(streams.get("world"))
        pg = ProgGen(streams.get("program"), spec)
        size = kr.choice([10, 20, 40, 80, 150])
        program = [pg.step() for _ in range(size)]
        return {"world": "names", "prop": self.prop, "kind": "gen", "knobs": knobs, "spec": spec, "program": program,
                "faults": faults}

    def run_case(self, case, col, log=None):
        run = _Run(case, col, log or Log())
        try:
            run.setup()
            try:
                run.execute()
            finally:
                run.teardown()
        except Violation as v:
            v.sig = run.signature(v)
            return v
        return None

    def sample(self, case):
        if case["kind"] == "default":
            prog = _default_program(case)
            return {"index": case["index"], "kind": "default", "unit_chunk": case["chunk"], "pass": case["pass"],
                    "first_lookups": prog[:12], "lookups": len(prog), "fault_plan": case["faults"]}
        return {"index": case["index"], "kind": "gen", "knobs": case["knobs"], "definitions": render_all(case["spec"]),
                "program": case["program"][:40], "fault_plan": case["faults"]}

    def describe(self):
        return {
            "rule": ("two kinds of case. gen: generated registry with colliding spellings (unit symbols equal to prefix+unit, "
                     "names ending in s, one/two-letter stems, nested prefix spellings, case twins, an offset unit, delta_x) + "
                     "a history of lookups through eleven entry points with per-call case_sensitive/as_delta, definitions of "
                     "colliding units/aliases/prefixes, a redefining context switched on and off, compound strings failing "
                     "at the second factor, forced parse-memo misses, lru eviction. default: one chunk of the seeded shuffle "
                     "of the complete product prefix x unit x {'', s} of default_en.txt (thorough covers the whole product "
                     "several times, each pass in another order). Every answer is compared with the admissible readings of "
                     "an independent table reader, with earlier occurrences, and with a pristine registry asked only that "
                     "question. distinct_nontrivial = distinct (entry point, outcome kind, #readings (cap 3), prefixed?, "
                     "plural?, seen before?, definitions added (cap 2)) excluding first-lookup exact names."),
            "trivial": lambda t: t.endswith("|exact|new|0"),
            "real": ["pint plain/nonmultiplicative/context registries from the working tree of /repo", "flexparser",
                     "os.fork for the pristine default registry"],
            "stubs": ["parse memo wrapped in FlakyDict", "ParserHelper.from_string lru re-wrapped per run"],
            "assumptions": ["where a string has several admissible readings any of them is accepted (DESIGN.md O1), but it must "
                            "be the same one at every occurrence and in the pristine registry (same process, same hash seed)",
                            "spellings that are not Python identifiers are only put to get_name/get_symbol/parse_unit_name",
                            "quick tier samples the default product; thorough covers it completely"],
        }

    def shrink(self, case):
        if case["kind"] == "default":
            prog = case.get("program") or _default_program(case)
            for cand in ddmin_list(prog):
                yield dict(case, program=cand)
        else:
            prog = case["program"]
            for cand in ddmin_list(prog):
                yield dict(case, program=cand)
            spec = case["spec"]
            for key in ("units", "prefixes", "contexts"):
                for j in range(len(spec[key]) - 1, 0 if key == "units" else -1, -1):
                    c = copy.deepcopy(case)
                    del c["spec"][key][j]
                    yield c
            for j, u in enumerate(spec["units"]):
                for fld in ("symbol", "aliases"):
                    if u.get(fld):
                        c = copy.deepcopy(case)
                        c["spec"]["units"][j].pop(fld)
                        yield c
        if case["faults"]["rates"]:
            yield dict(case, faults=dict(case["faults"], rates={}))
        for idx, s in enumerate(prog):
            if s.get("via") not in (None, "parse_units", "get_name"):
                yield dict(case, program=prog[:idx] + [dict(s, via="get_name")] + prog[idx + 1:])


def _default_program(case):
    if case.get("program") is not None:
        return case["program"]
    strings = default_product(case.get("seed", 0), case["pass"])[case["chunk"]]
    rng = random.Random(case["via_seed"])
    prog = []
    for i, s in enumerate(strings):
        ident = s.isidentifier()
        via = rng.choice(VIAS if ident else ["get_name", "get_symbol", "parse_unit_name"])
        st = {"id": i + 1, "k": "look", "s": s, "via": via}
        if via == "compound":
            st["s2"] = rng.choice(["meter", "second", "kg", "degC"])
            st["e"] = rng.choice([1, 2, -1])
            if rng.random() < 0.3:
                st["as_delta"] = rng.random() < 0.5
        if via in ("parse_units", "get_name", "get_symbol", "parse_unit_name") and rng.random() < 0.12:
            st["cs"] = False
            if rng.random() < 0.6:
                # the case-folded variants of the property: same string in another letter case
                v = rng.choice([s.lower(), s.upper(), s.swapcase(), s[:1].swapcase() + s[1:]])
                if v.isidentifier() or via != "parse_units":
                    st["s"] = v
        prog.append(st)
        if rng.random() < 0.1 and prog:
            prog.append(dict(rng.choice(prog), id=100000 + i))  # revisit after more history
    return prog


class _Run:
    def __init__(self, case, col, log):
        self.case = case
        self.col = col
        self.log = log
        self.plan = FaultPlan(case["faults"])
        self.kind = case["kind"]
        self.memory = {}
        self.epoch = 0
        self.defs = []
        self.ctx_on = False

    def num(self, s):
        T = NUMTYPES[self.case["knobs"]["numtype"]]
        return int(s) if str(s).lstrip("-").isdigit() else T(str(s))

    def setup(self):
        pint = core.import_pint()
        self.pint = pint
        import pint.util as putil

        self._putil = putil
        self._orig_from_string = putil.ParserHelper.__dict__["from_string"]
        self._raw = self._orig_from_string.__func__.__wrapped__
        self._live_lru = classmethod(functools.lru_cache(maxsize=self.case["knobs"].get("lru", 128))(self._raw))
        putil.ParserHelper.from_string = self._live_lru
        kn = self.case["knobs"]
        self.T = NUMTYPES[kn["numtype"]]
        if self.kind == "gen":
            self.lines = render_all(self.case["spec"])
            self.table = NamesTable.from_spec(self.case["spec"])
            try:
                self.ureg = pint.UnitRegistry(list(self.lines), non_int_type=self.T, case_sensitive=kn["case_sensitive"])
                self.ureg.default_as_delta = kn.get("default_as_delta", True)
            except Exception as e:
                raise HarnessError(f"world does not load: {type(e).__name__}: {e}")
            self.program = self.case["program"]
            self.pristine = None
        else:
            self.table = copy.deepcopy(default_table())
            self.ureg = pint.UnitRegistry(non_int_type=self.T)
            self.ureg.default_as_delta = kn.get("default_as_delta", True)
            # a second registry, built and never touched: forked children put one question to it
            self.pristine = pint.UnitRegistry(non_int_type=self.T)
            self.pristine.default_as_delta = kn.get("default_as_delta", True)
            self.program = _default_program(self.case)
        core.install_flaky(self.ureg, self.plan, self.col)

    def teardown(self):
        self._putil.ParserHelper.from_string = self._orig_from_string

    # ------------------------------------------------------------ one lookup
    def lookup(self, ureg, s):
        """Normalised answer of one lookup step on a registry."""
        via = s["via"]
        st = s["s"]
        kw = {}
        if "cs" in s:
            kw["case_sensitive"] = s["cs"]
        try:
            if via == "parse_units":
                k2 = dict(kw)
                if "as_delta" in s:
                    k2["as_delta"] = s["as_delta"]
                return ["units", norm_units(ureg.parse_units(st, **k2))]
            if via == "get_name":
                return ["name", ureg.get_name(st, **kw)]
            if via == "get_symbol":
                return ["sym", ureg.get_symbol(st, **kw)]
            if via == "parse_unit_name":
                return ["cands", sorted([p, u] for p, u, _ in ureg.parse_unit_name(st, **kw))]
            if via == "getattr":
                return ["units", norm_units(getattr(ureg, st))]
            if via == "contains":
                return ["bool", st in ureg]
            if via == "Unit":
                return ["units", norm_units(ureg.Unit(st))]
            if via == "Quantity":
                return ["units", norm_units(ureg.Quantity(1, st))]
            if via == "parse_expression":
                r = ureg.parse_expression(st, **kw)
                return ["units", norm_units(r)] if hasattr(r, "_units") else ["number", norm_num(r)]
            if via == "compound":
                e = s.get("e", 1)
                expr = f"{st} * {s['s2']}" if e == 1 else (f"{st} ** 2 * {s['s2']}" if e == 2 else f"{s['s2']} / {st}")
                return ["units", norm_units(ureg.parse_units(expr, **({"as_delta": s["as_delta"]} if "as_delta" in s else {})))]
        except RecursionError:
            return ["exc", "RecursionError"]
        except Exception as e:
            return ["exc", exc_name(e)]
        raise HarnessError(via)

    def pristine_answer(self, s):
        with _cold_lru(self):
            if self.kind == "gen":
                fresh = self.pint.UnitRegistry(list(self.lines) + self.defs, non_int_type=self.T,
                                               case_sensitive=self.case["knobs"]["case_sensitive"])
                fresh.default_as_delta = self.case["knobs"].get("default_as_delta", True)
                if self.ctx_on:
                    fresh.enable_contexts("cx")  # succeeded on the live registry with the same definitions
                return self.lookup(fresh, s)
            return core.fork_eval(lambda: self.lookup(self.pristine, s))

    # ------------------------------------------------------------ expectations
    def expect(self, s, ans):
        """Compare a normalised answer with the admissible readings; returns a description of the
        reading used (for coverage) or raises Violation."""
        t = self.table
        st = s["s"]
        via = s["via"]
        cs = s.get("cs")
        if cs is None or via in ("getattr", "contains", "Unit", "Quantity", "compound"):
            cs = self.case["knobs"]["case_sensitive"]
        if st == "dimensionless" or not st.strip():
            return "special"
        R = t.readings(st, cs)
        D = t.decompositions(st, cs)
        if not cs:
            # case-insensitive lookup *additionally* accepts spellings in another case: a string that has a
            # reading in the case as given keeps it
            R = t.readings(st, True) or R
            D_cs = t.decompositions(st, True)
        else:
            D_cs = D

        def bad(why, **more):
            raise Violation("C08.model", s["id"], dict({"string": st, "via": via, "case_sensitive": cs, "why": why,
                                                        "answer": ans, "admissible": sorted(map(list, R))}, **more))

        def offset_prefixed(r):
            return bool(r[0]) and not t.units[r[1]]["mult"]

        if via == "parse_unit_name":
            if ans[0] != "cands":
                bad("parse_unit_name raised")
            if sorted(map(list, D)) != ans[1]:
                bad("candidate set differs", expected_candidates=sorted(map(list, D)))
            return f"{len(D)}cands"
        if via == "get_symbol":
            # get_symbol enumerates decompositions (no exact-name shortcut)
            RR = R if st in t.unit_spellings() else D
            if not RR:
                if ans != ["exc", "UndefinedUnitError"]:
                    bad("no reading: UndefinedUnitError expected")
                return "none"
            if ans[0] != "sym" or ans[1] not in {t.symbol(r) for r in RR}:
                bad("symbol is not that of an admissible reading", symbols=sorted(t.symbol(r) for r in RR))
            return self._kind(RR, st)
        if via == "contains":
            if not R:
                if ans != ["bool", False]:
                    bad("no reading: membership must be False")
                return "none"
            if all(offset_prefixed(r) for r in R):
                if ans != ["exc", "OffsetUnitCalculusError"]:
                    bad("prefixed offset unit")
                return "offset"
            if ans != ["bool", True] and not (ans == ["exc", "OffsetUnitCalculusError"] and any(offset_prefixed(r) for r in R)):
                bad("a reading exists: membership must be True")
            return self._kind(R, st)
        if via == "compound" and s["s2"] == st:
            return "special"  # equal strings are merged (and may cancel) before any name is resolved
        if via == "compound":
            R2 = t.readings(s["s2"], self.case["knobs"]["case_sensitive"])
            if not R or not R2:
                if ans[0] != "exc":
                    bad("compound with an undefined factor must raise")
                return "none"
            if ans[0] == "exc":
                if ans[1] == "OffsetUnitCalculusError" and any(offset_prefixed(r) for r in list(R) + list(R2)):
                    return "offset"
                bad("compound of defined units raised")
            names = set()
            for r in R:
                for r2 in R2:
                    if offset_prefixed(r) or offset_prefixed(r2):
                        continue
                    a, b = t.canonical(r), t.canonical(r2)
                    # in a compound, offset units are read as their delta counterparts unless that is disabled
                    # (for the call, else for the registry)
                    delta = s["as_delta"] if "as_delta" in s else self.case["knobs"].get("default_as_delta", True)
                    if delta and not t.units[r[1]]["mult"]:
                        a = "delta_" + a
                    if delta and not t.units[r2[1]]["mult"]:
                        b = "delta_" + b
                    e = s.get("e", 1)
                    m = {}
                    for n, x in ((a, 2 if e == 2 else (1 if e == 1 else -1)), (b, 1)):
                        m[n] = m.get(n, 0) + x
                    names.add(json.dumps(sorted([k, v] for k, v in m.items() if v)))
            if json.dumps(ans[1]) not in names:
                bad("compound units are not those of admissible readings", expected_any=sorted(names))
            return "compound"
        # name-like entry points
        if not R:
            if ans != ["exc", "UndefinedUnitError"]:
                bad("no reading: UndefinedUnitError expected")
            return "none"
        ok = False
        for r in R:
            if offset_prefixed(r):
                ok = ok or ans == ["exc", "OffsetUnitCalculusError"]
                continue
            cname = t.canonical(r)
            if via == "get_name":
                ok = ok or ans == ["name", cname]
            else:
                want = [[cname, 1]]
                if via == "parse_units" and s.get("as_delta") is not None:
                    pass  # a single unit with exponent 1 is never turned into its delta
                ok = ok or ans == ["units", want]
        if not ok:
            bad("answer is not the canonical name of an admissible reading")
        return self._kind(R, st)

    def _kind(self, R, st):
        r = sorted(R)[0]
        exact = st in self.table.unit_spellings()
        return "exact" if exact else f"{min(len(R), 3)}r{'P' if r[0] else ''}{'S' if st.endswith('s') else ''}"

    def check_factor(self, s, ans):
        """The prefix factor is applied exactly once."""
        if ans[0] not in ("name", "units") or (ans[0] == "units" and len(ans[1]) != 1):
            return
        cname = ans[1] if ans[0] == "name" else ans[1][0][0]
        t = self.table
        cs = s.get("cs")
        if cs is None:
            cs = self.case["knobs"]["case_sensitive"]
        for r in t.readings(s["s"], cs):
            if r[0] and t.canonical(r) == cname and t.prefixes[r[0]]["factor"] is not None and t.units[r[1]]["mult"]:
                if cname in t.unit_spellings():
                    return  # a unit of that very name is defined: its own definition rules
                try:
                    f = self.ureg.Quantity(1, cname).to(r[1]).magnitude
                except Exception as e:
                    raise Violation("C08.factor", s["id"], {"string": s["s"], "unit": cname, "exc": exc_name(e)})
                self.col.checks += 1
                if not core.num_close(norm_num(f), norm_num(t.factor(r))):
                    raise Violation("C08.factor", s["id"], {"string": s["s"], "unit": cname, "to": r[1],
                                                            "factor": norm_num(f), "expected": norm_num(t.factor(r))})
                return

    # ------------------------------------------------------------ interpreter
    def execute(self):
        sample_rate = 0.04 if self.kind == "default" else 1.0
        for s in self.program:
            self.col.steps += 1
            self.plan.at_step(s["id"])
            core.install_flaky(self.ureg, self.plan, self.col)
            k = s["k"]
            if k == "look":
                ans = self.lookup(self.ureg, s)
                self.col.checks += 1
                kind = self.expect(s, ans)
                self.check_factor(s, ans)
                key = json.dumps([s["s"], s["via"], s.get("cs"), s.get("as_delta"), s.get("s2"), s.get("e"), self.epoch,
                                  self.ctx_on])
                seen = key in self.memory
                if seen and self.memory[key] != ans:
                    raise Violation("C08.history", s["id"], {"string": s["s"], "via": s["via"], "first_answer": self.memory[key],
                                                             "answer_now": ans})
                self.memory[key] = ans
                ambiguous = kind[0] in "23"
                if self.kind == "gen" or ambiguous or core.unit_float(self.case["faults"]["seed"], "pristine", s["id"]) < sample_rate:
                    b = self.pristine_answer(s)
                    self.col.checks += 1
                    self.col.probe("pristine_compared")
                    if b != ans:
                        raise Violation("C08.pristine", s["id"], {"string": s["s"], "via": s["via"], "flags": {k2: s[k2] for k2 in ("cs", "as_delta", "s2", "e") if k2 in s},
                                                                  "live_answer": ans, "pristine_answer": b, "definitions_added": self.defs})
                if ambiguous:
                    self.col.probe("ambiguous_string")
                self.col.trans(s["via"], ans[0], kind, "again" if seen else "new", min(len(self.defs), 2))
                self.log.ev(s["id"], s["s"], s["via"], ans)
            elif k == "define":
                if self.ctx_on:
                    self.col.probe("define_skipped_overlay_active")  # DESIGN.md O3
                    continue
                try:
                    self.ureg.define(s["line"])
                except Exception as e:
                    self.col.probe("define_refused:" + exc_name(e))
                    continue
                self._apply_define(s["line"])
                self.defs.append(s["line"])
                self.epoch += 1
                self.col.fault("state_change:define")
                self.log.ev(s["id"], "define", s["line"])
            elif k == "ctx_on":
                if not self.ctx_on:
                    try:
                        self.ureg.enable_contexts("cx")
                    except Exception as e:
                        # with colliding spellings pint may refuse the redefinition (its own assertion
                        # on ambiguous names): then the context simply is not entered
                        self.col.probe("context_refused:" + exc_name(e))
                        continue
                    self.ctx_on = True
                    self.col.fault("state_change:context")
            elif k == "ctx_off":
                if self.ctx_on:
                    self.ureg.disable_contexts()
                    self.ctx_on = False
                    self.col.fault("state_change:context")
            elif k == "lru":
                self._putil.ParserHelper.from_string.cache_clear()
                self.col.fault("lru_evict")

    def _apply_define(self, line):
        t = self.table
        if line.startswith("@alias"):
            parts = [x.strip() for x in line[len("@alias"):].split("=")]
            t.add_alias(parts[0], parts[1:])
        else:
            parts = [x.strip() for x in line.split("=")]
            if parts[0].endswith("-"):
                t.add_prefix(parts[0].rstrip("-"), None, parts[2].rstrip("-") if len(parts) > 2 else None, [])
            else:
                t.add_unit(parts[0])

    def signature(self, v):
        d = v.detail
        if v.rule == "C08.model":
            return f"{v.rule}/{d['via']}/{d['why'][:30]}/{d['answer'][0]}"
        if v.rule == "C08.factor":
            return f"{v.rule}/{'exc' if 'exc' in d else 'value'}"
        if v.rule in ("C08.pristine", "C08.history"):
            a = d.get("live_answer") or d.get("answer_now")
            b = d.get("pristine_answer") or d.get("first_answer")
            return f"{v.rule}/{d['via']}/{a[0]}-{b[0]}"
        return v.rule


class _cold_lru:
    def __init__(self, run):
        self.run = run

    def __enter__(self):
        self.run._putil.ParserHelper.from_string = classmethod(functools.lru_cache(maxsize=None)(self.run._raw))

    def __exit__(self, *a):
        self.run._putil.ParserHelper.from_string = self.run._live_lru
