"""World ``ctx``: context activation histories with faults (C12) and the value of
context conversions under a stack of active contexts (C11).

Real pint registries run the generated tree-shaped program with real ``with`` blocks and
decorators; a cache-free reference model (``CtxModel``) mirrors every statement.
"""

from __future__ import annotations

import copy
import gc
import json
from fractions import Fraction

from .. import core
from ..core import (
    Collector,
    FaultPlan,
    HarnessError,
    Log,
    Sentinel,
    Violation,
    ddmin_list,
    exc_name,
    frac,
    norm_num,
    norm_units,
)
from ..gen import DEC_FACTORS, RefTable, mono_mul, mono_str, render_plain, vec_key

AMBIG = "?"
# the same question in the same stack state of the same registry: floats are compared bit for bit
BATTERY_REL = float(__import__("os").environ.get("VERIF_C12_REL", "0"))
BASE_UNITS = ["ua", "ub", "uc", "ud"]
PARAMS = ["n1", "n2"]


# =========================================================================== generation
def _num_lit(rng, small=False):
    return rng.choice(DEC_FACTORS[:8] if small else DEC_FACTORS)


def gen_spec(rng, knobs) -> dict:
    nd = rng.randint(2, 4)
    dims = [f"[d{i}]" for i in range(nd)]
    units = [{"name": BASE_UNITS[i], "dim": dims[i]} for i in range(nd)]
    units.append({"name": "umk", "dim": "[mk]"})
    units.append({"name": "uobs", "dim": "[obs]"})
    base = [u["name"] for u in units[:nd]]
    prefixes = [
        {"name": "kilo", "symbol": "K", "aliases": [], "factor": "1e3"},
        {"name": "milli", "symbol": "M", "aliases": [], "factor": "1e-3"},
    ]
    # derived units; later ones may depend on earlier ones (dependants of redefinable units)
    nder = rng.randint(2, 6)
    derived = []
    for i in range(nder):
        pool = base + [d["name"] for d in derived]
        ref = {}
        for _ in range(rng.randint(1, 2)):
            ref = mono_mul(ref, {rng.choice(pool): rng.choice([1, 1, 1, -1, 2])})
        if not ref:
            ref = {rng.choice(base): 1}
        u = {"name": f"v{i}", "factor": _num_lit(rng), "ref": ref}
        if rng.random() < 0.3:
            u["symbol"] = f"V{i}"
        if rng.random() < 0.2:
            u["aliases"] = [f"v{i}alt"]
        derived.append(u)
    units.extend(derived)
    spec = {"dims": dims + ["[mk]", "[obs]"], "prefixes": prefixes, "units": units, "ddims": []}
    table = RefTable(spec)

    # derived dimensions (rules declared on them are normalised on first activation)
    ddims = []
    for i in range(rng.randint(0, 2)):
        ref = {}
        while not ref:
            ref = mono_mul({rng.choice(dims): 1}, {rng.choice(dims): rng.choice([-1, 1, -2])})
        ddims.append({"name": f"[s{i}]", "ref": ref})
    spec["ddims"] = ddims
    table = RefTable(spec)

    # nodes of the rule graph: dimension monomials (written with base or derived dimension names)
    nodes = [{d: 1} for d in dims] + [{d["name"]: 1} for d in ddims]
    for _ in range(rng.randint(0, 2)):
        m = mono_mul({rng.choice(dims): 1}, {rng.choice(dims): rng.choice([-1, 1])})
        if m:
            nodes.append(m)
    # deduplicate by dimension vector
    seen, uniq = set(), []
    for n in nodes:
        k = vec_key(table.dimvec(n))
        if k and k not in seen:
            seen.add(k)
            uniq.append(n)
    nodes = uniq

    base_of_dim = {dims[i]: base[i] for i in range(nd)}
    base_of_dim["[mk]"] = "umk"
    base_of_dim["[obs]"] = "uobs"
    redefinable = [d["name"] for d in derived]

    def monomial_for(vec: dict) -> dict:
        return {base_of_dim[d]: e for d, e in vec.items()}

    def make_rule(rid, src, dst, bidir, py):
        vs, vd = table.dimvec(src), table.dimvec(dst)
        kind = "inv" if (bidir or rng.random() < 0.3) else "lin"
        need = mono_mul(vd, vs, -1) if kind == "lin" else mono_mul(vd, vs, 1)
        M = monomial_for(need)
        if redefinable and rng.random() < 0.3:
            # dimensionless extra factor that changes when the unit is redefined
            v = rng.choice(redefinable)
            _, vdim = table.root_of_unit(v)
            M = mono_mul(mono_mul(M, {v: 1}), monomial_for(vdim), -1)
        par = None
        if rng.random() < 0.5:
            par = [rng.choice(PARAMS), rng.choice([1, 1, -1, 2])]
        return {"id": rid, "src": src, "dst": dst, "bidir": bidir, "kind": kind,
                "K": _num_lit(rng), "par": par, "M": M, "py": py}

    nctx = rng.randint(1, 4)
    contexts = []
    rid = 0
    used_edges = []
    for ci in range(nctx):
        via = rng.choice(["file", "file", "py", "anon"]) if knobs.get("pyctx", True) else "file"
        py = via != "file"
        ctx = {"name": f"c{ci}", "aliases": [f"c{ci}x"] if rng.random() < 0.6 and via != "anon" else [],
               "via": via, "defaults": {}, "rules": [], "redefs": [], "bad": None}
        nrules = rng.randint(0, 4) if len(nodes) >= 2 else 0
        redef_only = bool(redefinable) and rng.random() < 0.2 and (via == "file" or knobs["numtype"] == "float")
        if redef_only:
            nrules = 0
            ctx["redef_only"] = True
        for _ in range(nrules):
            if used_edges and rng.random() < 0.35:
                si, di = rng.choice(used_edges)  # collide with another context's rule
            else:
                si, di = rng.sample(range(len(nodes)), 2)
            if any(r["_e"] == (si, di) or (r["bidir"] and r["_e"] == (di, si)) for r in ctx["rules"]):
                continue
            bidir = rng.random() < 0.25
            r = make_rule(f"r{rid}", nodes[si], nodes[di], bidir, py and rng.random() < 0.7)
            r["_e"] = (si, di)
            rid += 1
            ctx["rules"].append(r)
            used_edges.append((si, di))
        # redefinitions (python-made contexts parse them as float: only in float worlds)
        if redefinable and (redef_only or rng.random() < 0.5) and (via == "file" or knobs["numtype"] == "float"):
            for v in rng.sample(redefinable, rng.randint(1, min(2, len(redefinable)))):
                _, vdim = table.root_of_unit(v)
                ref = dict(table.units[v]["ref"]) if rng.random() < 0.5 else monomial_for(vdim)
                if not ref:
                    ref = dict(table.units[v]["ref"])
                ctx["redefs"].append({"name": v, "factor": _num_lit(rng), "ref": ref})
        contexts.append(ctx)
    # deliberate structures: a direct rule next to a two-step chain with another value (a path
    # that is not shortest gives a different answer), and two different shortest chains
    hot = []

    def add_edge(si, di):
        nonlocal rid
        cands = [c for c in contexts if not c.get("redef_only") and not any(r.get("_e") == (si, di) for r in c["rules"])]
        if not cands:
            return
        c = rng.choice(cands)
        r = make_rule(f"r{rid}", nodes[si], nodes[di], False, c["via"] != "file" and rng.random() < 0.5)
        r["_e"] = (si, di)
        rid += 1
        c["rules"].append(r)

    if contexts and len(nodes) >= 3 and rng.random() < 0.6:
        a, b, c3 = rng.sample(range(len(nodes)), 3)
        for e in ((a, c3), (a, b), (b, c3)):
            add_edge(*e)
        hot.append([nodes[a], nodes[c3]])
        hot.append([nodes[a], nodes[b]])
    if contexts and len(nodes) >= 4 and rng.random() < 0.5:
        a, b, c3, d = rng.sample(range(len(nodes)), 4)
        for e in ((a, b), (b, d), (a, c3), (c3, d)):
            add_edge(*e)
        hot.append([nodes[a], nodes[d]])
    spec["hot_pairs"] = hot
    # two contexts that redefine the same unit differently: the most recent one must win, whatever
    # order they were first seen in
    spec["redef_clash"] = None
    okc = [i for i, c in enumerate(contexts) if c["via"] == "file" or knobs["numtype"] == "float"]
    if redefinable and len(okc) >= 2 and rng.random() < 0.5:
        i, j = rng.sample(okc, 2)
        v = rng.choice(redefinable)
        # one of the two may write the unit by its symbol or alias: it is the same unit all the same
        spelled = [d for d in derived if d.get("symbol") or d.get("aliases")]
        other = None
        if spelled and not knobs.get("ci") and rng.random() < 0.6:
            d = rng.choice(spelled)
            v = d["name"]
            other = rng.choice(([d["symbol"]] if d.get("symbol") else []) + list(d.get("aliases", ())))
        for ci, fac in ((i, "3"), (j, "7")):
            contexts[ci]["redefs"] = [r for r in contexts[ci]["redefs"] if r["name"] != v]
            contexts[ci]["redefs"].append({"name": v, "factor": fac, "ref": dict(table.units[v]["ref"])})
        if other:
            contexts[rng.choice([i, j])]["redefs"][-1]["as"] = other
        spec["redef_clash"] = [i, j, v]
    # contexts whose activation must fail (invalid redefinition at position j)
    kinds = ["undef", "prefixed", "base", "dim"]
    if knobs.get("ci"):
        # a case-insensitive registry with two units that differ only in case: redefining one of them is
        # ambiguous and pint refuses it with an assertion - another exception class than the usual ones
        units.append({"name": "tw", "factor": "2", "ref": {base[0]: 1}})
        units.append({"name": "TW", "factor": "5", "ref": {base[0]: 1}})
        kinds = kinds + ["ambiguous", "ambiguous"]
    if knobs.get("badctx", True) and rng.random() < 0.7:
        for kind in rng.sample(kinds, rng.randint(1, 2)):
            ci = len(contexts)
            ctx = {"name": f"c{ci}", "aliases": [], "via": "file", "defaults": {}, "rules": [],
                   "redefs": [], "bad": kind}
            if redefinable and rng.random() < 0.6:  # a valid redefinition first: partial work before failing
                v = rng.choice(redefinable)
                ctx["redefs"].append({"name": v, "factor": _num_lit(rng), "ref": dict(table.units[v]["ref"])})
            if kind == "undef":
                ctx["redefs"].append({"name": "nosuch", "factor": "3", "ref": {base[0]: 1}})
            elif kind == "prefixed" and redefinable:
                v = redefinable[0]
                ctx["redefs"].append({"name": "K" + v, "factor": "3", "ref": dict(table.units[v]["ref"])})
            elif kind == "base":
                ctx["redefs"].append({"name": base[0], "factor": "3", "ref": {base[-1]: 1}})
            elif kind == "ambiguous":
                ctx["redefs"].append({"name": "tw", "factor": "3", "ref": {base[0]: 1}})
            elif kind == "dim" and redefinable:
                v = redefinable[0]
                _, vdim = table.root_of_unit(v)
                ctx["redefs"].append({"name": v, "factor": "3", "ref": mono_mul(monomial_for(vdim), {"umk": 1})})
            else:
                ctx["redefs"].append({"name": "nosuch", "factor": "3", "ref": {base[0]: 1}})
                ctx["bad"] = "undef"
            contexts.append(ctx)
    # a context built in Python one of whose rules is written in a dimension the registry does not know yet
    # ([zq]): its activation must fail and change nothing - neither the stack nor the context object - until
    # the dimension is defined at run time; from then on it is an ordinary context
    spec["late_dim"] = None
    if knobs.get("badctx", True) and knobs.get("pyctx", True) and len(nodes) >= 2 and rng.random() < 0.35:
        ref = mono_mul({dims[0]: 1}, {rng.choice(dims): rng.choice([1, 2, -2])})
        spec["ddims"].append({"name": "[zq]", "ref": ref, "late": True})
        table = RefTable(spec)
        ci = len(contexts)
        ctx = {"name": f"c{ci}", "aliases": [], "via": rng.choice(["py", "anon"]), "defaults": {}, "rules": [],
               "redefs": [], "bad": "undim"}
        others = [n for n in nodes if vec_key(table.dimvec(n)) != vec_key(ref)]
        written = [n for n in others if any(k in table.ddims for k in n)] or others
        if others:
            zq_rule = make_rule(f"r{rid}", {"[zq]": 1}, rng.choice(others), rng.random() < 0.3, rng.random() < 0.5)
            rid += 1
            second = rng.sample(others, 2) if len(others) >= 2 else None
            rules = [zq_rule]
            if second:
                # a rule written in a derived dimension where there is one: rewritten on first activation
                src2 = rng.choice(written)
                dst2 = rng.choice([n for n in others if n is not src2])
                r2 = make_rule(f"r{rid}", src2, dst2, False, rng.random() < 0.5)
                rid += 1
                rules.append(r2)
                if rng.random() < 0.5:
                    rules.reverse()
            ctx["rules"] = rules
            contexts.append(ctx)
            spec["late_dim"] = {"name": "[zq]", "ref": ref, "ctx": ci}
        else:
            spec["ddims"].pop()
            table = RefTable(spec)
    # a context without any rule at all (redefinitions only) has no marker either: its place in the
    # stack shows only through what it does to the others
    for ctx in contexts:
        if ctx["redefs"] and not ctx["rules"] and not ctx["bad"] and (ctx.get("redef_only") or rng.random() < 0.6):
            ctx["nomarker"] = True
    n = len(contexts)
    # marker rules: one private per context, one shared per pair (reveals relative order)
    pair_index = {}
    for i in range(n):
        for j in range(i + 1, n):
            pair_index[(i, j)] = len(pair_index)
    kk = 0
    for i, ctx in enumerate(contexts):
        if ctx.get("nomarker"):
            continue
        py = ctx["via"] != "file"
        par = [rng.choice(PARAMS), 1] if rng.random() < 0.7 else None
        ctx["rules"].append({"id": f"m{i}", "src": {"[mk]": i + 1}, "dst": {"[obs]": 1}, "bidir": False,
                             "kind": "lin", "K": str(3 + i), "par": par,
                             "M": {"uobs": 1, "umk": -(i + 1)}, "py": py and rng.random() < 0.5, "marker": True})
        for (a, b), pi in pair_index.items():
            if i in (a, b) and not contexts[a].get("nomarker") and not contexts[b].get("nomarker"):
                kk += 1
                e = 10 + pi
                ctx["rules"].append({"id": f"p{a}_{b}_{i}", "src": {"[mk]": e}, "dst": {"[obs]": 1},
                                     "bidir": False, "kind": "lin", "K": str(100 * (a + 1) + 10 * (b + 1) + (i == b)),
                                     "par": None, "M": {"uobs": 1, "umk": -e}, "py": False, "marker": True})
    for ctx in contexts:
        for r in ctx["rules"]:
            r.pop("_e", None)
            if r["par"]:
                ctx["defaults"].setdefault(r["par"][0], rng.choice(["2", "3", "5", "0.5"]))
    spec["contexts"] = contexts
    # optional unit system (exposes the base-unit memo to context redefinitions)
    if knobs.get("system") and derived:
        cands = []
        for d in derived:
            _, vdim = table.root_of_unit(d["name"])
            for dim, e in vdim.items():
                if abs(e) == 1 and dim in dims:
                    cands.append((d["name"], base_of_dim[dim]))
        if cands:
            new, old = rng.choice(cands)
            for d in derived:
                if rng.random() < 0.6:
                    d["group"] = "ga"
            spec["groups"] = [{"name": "ga", "using": []}]
            spec["systems"] = [{"name": "sysa", "using": ["ga"], "rules": [[new, old]]}]
            spec["default_system"] = "sysa"
    return spec


def render_context(ctx: dict) -> list:
    head = "@context"
    if ctx["defaults"]:
        head += "(" + ", ".join(f"{k}={v}" for k, v in ctx["defaults"].items()) + ")"
    head += " " + " = ".join([ctx["name"], *ctx["aliases"]])
    out = [head]
    for r in ctx["rules"]:
        if r.get("py"):
            continue
        arrow = "<->" if r["bidir"] else "->"
        out.append(f"    {mono_str(r['src'])} {arrow} {mono_str(r['dst'])}: {equation(r)}")
    for rd in ctx["redefs"]:
        out.append(f"    {rd.get('as', rd['name'])} = {rd['factor']} * {mono_str(rd['ref'])}")
    out.append("@end")
    return out


def equation(r: dict) -> str:
    m = mono_str(r["M"], one="1")
    if r["kind"] == "lin":
        s = f"value * {r['K']} * {m}"
    else:
        s = f"{r['K']} * {m} / value"
    if r["par"]:
        p, e = r["par"]
        s += f" * {p}" if e == 1 else (f" / {p}" if e == -1 else f" * {p} ** {e}")
    return s


def render(spec: dict) -> list:
    lines = render_plain(spec)
    for ctx in spec["contexts"]:
        if ctx["via"] == "file" and not ctx.get("dropped"):
            lines.extend(render_context(ctx))
    return lines


# --------------------------------------------------------------------------- program generation
class ProgGen:
    def __init__(self, rng, spec, knobs, prop):
        self.rng = rng
        self.spec = spec
        self.knobs = knobs
        self.prop = prop
        self.table = RefTable(spec)
        self.nid = 0
        self.ndef = 0
        self.ctx_ok = [i for i, c in enumerate(spec["contexts"]) if not c["bad"]]
        self.ctx_bad = [i for i, c in enumerate(spec["contexts"]) if c["bad"]]
        # dimension vectors worth probing: every rule endpoint and every unit's dimension
        self.by_dim = {}
        for n in self.table.order:
            if n in ("umk", "uobs", "tw", "TW"):
                continue
            _, d = self.table.root_of_unit(n)
            if d:
                self.by_dim.setdefault(vec_key(d), []).append({n: 1})
        bod = self.table.base_unit_of_dim()
        for c in spec["contexts"]:
            for r in c["rules"]:
                if r.get("marker"):
                    continue
                for end in (r["src"], r["dst"]):
                    v = self.table.dimvec(end)
                    self.by_dim.setdefault(vec_key(v), []).append({bod[d]: e for d, e in v.items()})
        for pair in spec.get("hot_pairs", ()):
            for end in pair:
                v = self.table.dimvec(end)
                self.by_dim.setdefault(vec_key(v), []).append({bod[d]: e for d, e in v.items()})
        self.dimkeys = sorted(self.by_dim)

    def sid(self):
        self.nid += 1
        return self.nid

    def ctx_ref(self, i=None, allow_bad=False):
        rng = self.rng
        if i is None:
            pool = self.ctx_ok + (self.ctx_bad if allow_bad else [])
            i = rng.choice(pool)
        c = self.spec["contexts"][i]
        vias = ["obj"] if c["via"] == "anon" else ["name", "name", "obj"] + (["alias"] if c["aliases"] else [])
        return {"c": i, "via": rng.choice(vias)}

    def ctx_list(self, faulty: bool):
        rng = self.rng
        n = rng.choice([1, 1, 1, 2, 2, 3])
        refs = [self.ctx_ref() for _ in range(n)]
        if faulty:
            pos = rng.randint(0, n)
            if self.ctx_bad and rng.random() < 0.7:
                refs.insert(pos, self.ctx_ref(rng.choice(self.ctx_bad)))
            else:
                refs.insert(pos, {"bad": "nosuchctx"})
        return refs

    def kw(self):
        rng = self.rng
        if rng.random() < 0.5:
            return {}
        return {p: rng.choice(["2", "3", "7", "0.25"]) for p in PARAMS if rng.random() < 0.6}

    def spelled(self, mono):
        """Randomly respell a monomial of canonical names with prefixes / symbols / aliases."""
        rng = self.rng
        out = {}
        for k, e in mono.items():
            u = self.table.units.get(k)
            s = k
            if u is not None:
                opts = [k] + ([u["symbol"]] if u.get("symbol") else []) + list(u.get("aliases", ()))
                s = rng.choice(opts)
                if rng.random() < 0.25:
                    s = rng.choice(["K", "kilo", "M", "milli"]) + s
            out = mono_mul(out, {s: e})
        return out or dict(mono)

    def probe(self):
        rng = self.rng
        if not self.dimkeys:
            return None
        ka = rng.choice(self.dimkeys)
        if rng.random() < (0.3 if self.prop == "C11" else 0.4):
            kb = ka
        else:
            kb = rng.choice(self.dimkeys)
        hot = self.spec.get("hot_pairs")
        if hot and rng.random() < (0.4 if self.prop == "C11" else 0.15):
            a, b = rng.choice(hot)
            ka, kb = vec_key(self.table.dimvec(a)), vec_key(self.table.dimvec(b))
        src = self.spelled(rng.choice(self.by_dim[ka]))
        dst = self.spelled(rng.choice(self.by_dim[kb]))
        forms = ["to", "to", "convert", "ito", "to_ctx", "compat_q", "compat_units"]
        if self.knobs.get("system"):
            forms.remove("compat_units")
        form = rng.choice(forms)
        s = {"id": self.sid(), "k": "probe", "x": rng.choice(["1", "2", "3", "0.5", "12", "7"]),
             "src": src, "dst": dst, "form": form, "use_def": rng.random() < 0.15}
        if form in ("to_ctx", "compat_q", "compat_units", "ito") and rng.random() < 0.6 or form == "to_ctx":
            s["ctxs"] = self.ctx_list(faulty=rng.random() < 0.08)
            s["kw"] = self.kw() if form != "compat_units" else {}
        return s

    def block(self, depth, budget):
        rng = self.rng
        out = []
        act = self.prop == "C12"
        while budget[0] > 0:
            budget[0] -= 1
            r = rng.random()
            if r < (0.30 if act else 0.45):
                p = self.probe()
                if p:
                    out.append(p)
            elif r < 0.45:
                out.append({"id": self.sid(), "k": "enable", "ctxs": self.ctx_list(rng.random() < (0.25 if act else 0.05)),
                            "kw": self.kw()})
            elif r < 0.55:
                out.append({"id": self.sid(), "k": "disable", "n": rng.choice([1, 1, 1, 2, 3, None, 0])})
            elif r < 0.72 and depth < 4:
                out.append({"id": self.sid(), "k": "with", "ctxs": self.ctx_list(rng.random() < (0.2 if act else 0.05)),
                            "kw": self.kw(), "body": self.block(depth + 1, budget)})
            elif r < 0.78 and depth < 4:
                out.append({"id": self.sid(), "k": "call", "ctx": self.ctx_ref(), "kw": self.kw(),
                            "body": self.block(depth + 1, budget)})
            elif r < 0.84 and depth < 4:
                out.append({"id": self.sid(), "k": "try", "body": self.block(depth + 1, budget)})
            elif r < 0.89 and depth > 0:
                out.append({"id": self.sid(), "k": "raise"})
            elif r < 0.93:
                self.ndef += 1
                base = [n for n in self.table.order if n not in ("umk", "uobs", "tw", "TW")]
                out.append({"id": self.sid(), "k": "define", "name": f"x{self.ndef}", "factor": _num_lit(rng),
                            "ref": {rng.choice(base): 1}})
            elif r < 0.96:
                out.append({"id": self.sid(), "k": "gc"})
            elif r < 0.975 and any(c["bad"] == "undef" for c in self.spec["contexts"]):
                # the unit whose absence makes a context invalid gets defined: from then on the context is valid
                out.append({"id": self.sid(), "k": "define", "name": "nosuch", "factor": _num_lit(rng),
                            "ref": {BASE_UNITS[0]: 1}, "heal": True})
            elif r < 0.98 and self.spec.get("late_dim"):
                ld = self.spec["late_dim"]
                out.append({"id": self.sid(), "k": "define_dim", "name": ld["name"], "ref": dict(ld["ref"])})
            elif r < 0.985:
                # a parameter value that cannot be hashed: with a redefining context the combination key
                # cannot be computed, the activation must fail and change nothing
                red = [i for i in self.ctx_ok if self.spec["contexts"][i]["redefs"]]
                if red:
                    out.append({"id": self.sid(), "k": "enable", "ctxs": [self.ctx_ref(rng.choice(red))],
                                "kw": {"n1": ["2", "3"]}, "unhashable": True})
            if depth > 0 and rng.random() < 0.3:
                break
        return out


# =========================================================================== reference model
class CtxModel:
    """Cache-free reference: a list of (context index, effective parameters), the union rule
    graph with 'most recent owner wins', all shortest chains, exact rule evaluation and
    the unit table overlaid by the active redefinitions."""

    def __init__(self, spec):
        self.spec = spec
        self.base = RefTable(spec)
        self.ctxs = spec["contexts"]
        self.stack = []  # oldest first: (idx, params)
        self.runtime = {}  # name -> unit dict (defined with no overlay active)
        self.tainted = set()  # names defined while an overlay was active
        self.epoch = 0
        self._norm = {}
        for i, c in enumerate(self.ctxs):
            rules = []
            for r in c["rules"]:
                s, d = vec_key(self.base.dimvec(r["src"])), vec_key(self.base.dimvec(r["dst"]))
                rules.append((s, d, r))
                if r["bidir"]:
                    rules.append((d, s, r))
            self._norm[i] = rules

    # -- stack
    def enclosing(self) -> dict:
        cands = [p for (i, p) in self.stack if self._norm[i]]
        if not cands:
            return {}
        keys = set()
        for p in cands:
            keys |= p.keys()
        out = {}
        for k in keys:
            vals = [p.get(k, None) for p in cands]
            if all(v is not None and v != AMBIG and v == vals[0] for v in vals):
                out[k] = vals[0]
            else:
                out[k] = AMBIG
        return out

    def push(self, idxs, kw):
        enc = self.enclosing()
        eff = dict(enc, **kw) if enc else dict(kw)
        for i in idxs:
            declared = {k: frac(v) for k, v in self.ctxs[i]["defaults"].items()}
            params = dict(declared, **eff) if eff else declared
            self.stack.append((i, params))

    def pop(self, n):
        if n is None:
            self.stack.clear()
        elif n > 0:
            del self.stack[max(0, len(self.stack) - n):]

    def key(self):
        return tuple((i, tuple(sorted((k, str(v)) for k, v in p.items()))) for i, p in self.stack)

    def has_ambig(self):
        return any(v == AMBIG for _, p in self.stack for v in p.values())

    def overlay_active(self):
        return any(self.ctxs[i]["redefs"] for i, _ in self.stack)

    # -- unit table
    def table(self) -> RefTable:
        t = self.base.copy()
        for u in self.runtime.values():
            t.add_unit(u)
        for i, _ in self.stack:  # oldest first: the most recent redefinition wins
            for rd in self.ctxs[i]["redefs"]:
                old = t.units[rd["name"]]
                t.units[rd["name"]] = dict(old, factor=rd["factor"], ref=rd["ref"])
        return t

    # -- rule graph
    def edges(self) -> dict:
        out = {}
        for i, p in self.stack:  # later entries overwrite earlier ones: most recent wins
            for s, d, r in self._norm[i]:
                out[(s, d)] = (i, p, r)
        return out

    def shortest_paths(self, edges, a, b, limit=64):
        """All shortest paths a -> b as lists of edge keys (plain BFS over dimension vectors)."""
        adj = {}
        for (s, d) in edges:
            adj.setdefault(s, []).append(d)
        dist = {a: 0}
        frontier = [a]
        while frontier and b not in dist:
            nxt = []
            for n in frontier:
                for m in adj.get(n, ()):
                    if m not in dist:
                        dist[m] = dist[n] + 1
                        nxt.append(m)
            frontier = nxt
        if b not in dist:
            return []
        paths = []

        def back(node, acc):
            if len(paths) >= limit:
                return
            if node == a:
                paths.append(list(reversed(acc)))
                return
            for (s, d) in edges:
                if d == node and s in dist and dist[s] == dist[node] - 1:
                    back(s, acc + [(s, d)])

        back(b, [])
        return paths

    def apply_rule(self, table, owner, mag, dims):
        i, params, r = owner
        f, d = table.root(r["M"])
        k = frac(r["K"]) * f
        if r["par"]:
            p, e = r["par"]
            v = params.get(p)
            if v is None or v == AMBIG:
                return None, None
            k *= frac(v) ** e
        if r["kind"] == "lin":
            return mag * k, mono_mul(dims, d)
        return k / mag, mono_mul(d, dims, -1)

    def expected_convert(self, x, src, dst, table=None):
        """Set of admissible outcomes of converting x*src to dst under the current stack:
        ('val', Fraction) | ('err', 'DimensionalityError') | ('unknown',)."""
        table = table or self.table()
        fs, ds = table.root(src)
        fd, dd = table.root(dst)
        ks, kd = vec_key(ds), vec_key(dd)
        if ks == kd:
            return {("val", x * fs / fd)}
        edges = self.edges()
        paths = self.shortest_paths(edges, ks, kd) if edges else []
        if not paths:
            return {("err", "DimensionalityError")}
        outs = set()
        for path in paths:
            mag, dims = x * fs, ds
            for e in path:
                mag, dims = self.apply_rule(table, edges[e], mag, dims)
                if mag is None:
                    break
            if mag is None:
                outs.add(("unknown",))
            elif vec_key(dims) != kd:
                outs.add(("err", "DimensionalityError"))
            else:
                outs.add(("val", mag / fd))
        return outs

    def reachable_dims(self, src_vec_key):
        """Dimension vectors whose units compatible_units must list (pint: the connected set
        from the source if it has outgoing rules, plus the source dimension itself)."""
        edges = self.edges()
        adj = {}
        for (s, d) in edges:
            adj.setdefault(s, []).append(d)
        out = {src_vec_key}
        if src_vec_key in adj:
            todo = [src_vec_key]
            while todo:
                n = todo.pop()
                for m in adj.get(n, ()):
                    if m not in out:
                        out.add(m)
                        todo.append(m)
        return out


# =========================================================================== the world
class CtxWorld:
    name = "ctx"

    def __init__(self, prop):
        self.prop = prop

    # ---------------------------------------------------------------- generation
    def generate(self, streams, tier, index):
        if self.prop == "C11" and index % 8 == 3:
            from . import ctx_default

            return ctx_default.generate(streams, self.prop)
        kr = streams.get("knobs")
        knobs = {
            "numtype": kr.choice(["float", "Fraction", "Fraction"]),
            "lru": kr.choice([1, 2, 8, 128, None]),
            "system": kr.random() < 0.3,
            "tworeg": kr.random() < 0.2,
            "pyctx": kr.random() < 0.8,
            "badctx": True,
            "on_redef": kr.choice(["warn", "warn", "raise", "ignore"]),
            "ci": kr.random() < 0.15,
        }
        spec = gen_spec(streams.get("world"), knobs)
        pg = ProgGen(streams.get("program"), spec, knobs, self.prop)
        size = kr.choice([4, 6, 8, 12, 16, 24, 30])
        program = pg.block(0, [size])
        clash = spec.get("redef_clash")
        if clash and kr.random() < 0.6:
            # the same two contexts in one order and later in the other, with a probe on the contested unit
            i, j, v = clash
            t = pg.table
            _, d = t.root_of_unit(v)
            bod = t.base_unit_of_dim()
            basemono = {bod[k]: e for k, e in d.items()}

            def probe():
                return {"id": pg.sid(), "k": "probe", "x": "2", "src": {v: 1}, "dst": basemono, "form": "to", "use_def": False}

            first = [{"id": pg.sid(), "k": "with", "ctxs": [{"c": i, "via": "name"}, {"c": j, "via": "name"}], "kw": {}, "body": [probe()]}]
            second = [{"id": pg.sid(), "k": "enable", "ctxs": [{"c": j, "via": "name"}], "kw": {}},
                      {"id": pg.sid(), "k": "enable", "ctxs": [{"c": i, "via": "name"}], "kw": {}}, probe(),
                      {"id": pg.sid(), "k": "disable", "n": 2}]
            for c_idx in (i, j):
                if spec["contexts"][c_idx]["via"] == "anon":
                    for st in first + second:
                        for r in st.get("ctxs", ()):
                            if r["c"] == c_idx:
                                r["via"] = "obj"
            parts = [first, second]
            kr.shuffle(parts)
            a = kr.randint(0, len(program))
            b = kr.randint(a, len(program))
            program = program[:a] + parts[0] + program[a:b] + parts[1] + program[b:]
        ld = spec.get("late_dim")
        if ld and kr.random() < 0.6:
            # refused because a dimension is unknown - the dimension gets defined - the same activation again: every
            # rule of the context must then be in force, also those that come after the offending one
            i = ld["ctx"]
            c = spec["contexts"][i]
            ref = {"c": i, "via": "obj" if c["via"] == "anon" else "name"}
            t = pg.table
            bod = t.base_unit_of_dim()
            snippet = [{"id": pg.sid(), "k": "enable", "ctxs": [dict(ref)], "kw": {}}]
            if kr.random() < 0.5:
                snippet.append({"id": pg.sid(), "k": "enable", "ctxs": [dict(ref)], "kw": {}})
            snippet += [{"id": pg.sid(), "k": "define_dim", "name": ld["name"], "ref": dict(ld["ref"])},
                        {"id": pg.sid(), "k": "enable", "ctxs": [dict(ref)], "kw": {}}]
            for r in c["rules"]:
                if r.get("marker"):
                    continue
                vs, vd = t.dimvec(r["src"]), t.dimvec(r["dst"])
                snippet.append({"id": pg.sid(), "k": "probe", "x": "2", "src": {bod[k]: e for k, e in vs.items()},
                                "dst": {bod[k]: e for k, e in vd.items()}, "form": kr.choice(["to", "convert", "compat_q"]),
                                "use_def": False})
            snippet.append({"id": pg.sid(), "k": "disable", "n": 1})
            a = kr.randint(0, len(program))
            program = program[:a] + snippet + program[a:]
        undef = [i for i, c in enumerate(spec["contexts"]) if c["bad"] == "undef"]
        if undef and kr.random() < 0.5:
            # an activation that fails because a unit is missing, the unit gets defined, the very same
            # activation again: now everything the context redefines must be in force
            i = undef[0]
            ref = {"c": i, "via": "name"}
            snippet = [{"id": pg.sid(), "k": "enable", "ctxs": [dict(ref)], "kw": {}},
                       {"id": pg.sid(), "k": "define", "name": "nosuch", "factor": "5", "ref": {BASE_UNITS[0]: 1}, "heal": True},
                       {"id": pg.sid(), "k": "enable", "ctxs": [dict(ref)], "kw": {}},
                       {"id": pg.sid(), "k": "probe", "x": "2", "src": {"nosuch": 1}, "dst": {BASE_UNITS[0]: 1}, "form": "to",
                        "use_def": False, "needs_heal": True}]
            for rd in spec["contexts"][i]["redefs"]:
                if rd["name"] != "nosuch":
                    t = pg.table
                    _, d = t.root_of_unit(rd["name"])
                    bod = t.base_unit_of_dim()
                    snippet.append({"id": pg.sid(), "k": "probe", "x": "2", "src": {rd["name"]: 1},
                                    "dst": {bod[k]: e for k, e in d.items()}, "form": "to", "use_def": False})
            snippet.append({"id": pg.sid(), "k": "disable", "n": 1})
            a = kr.randint(0, len(program))
            program = program[:a] + snippet + program[a:]
        fr = streams.get("faults")
        rates = {}
        if fr.random() < 0.7:  # swarm: a random subset of fault sites is enabled, sometimes none
            for site in ("miss:root_units", "miss:conversion_factor", "miss:dimensionality",
                         "miss:parse_unit", "miss:base_units"):
                if fr.random() < 0.5:
                    rates[site] = fr.choice([0.05, 0.2, 0.5, 1.0])
            if fr.random() < 0.4:
                rates["cb"] = fr.choice([0.05, 0.2])
        faults = {"seed": fr.getrandbits(32), "rates": rates, "off": []}
        return {"world": "ctx", "prop": self.prop, "knobs": knobs, "spec": spec,
                "program": program, "faults": faults}

    # ---------------------------------------------------------------- execution
    def run_case(self, case, col: Collector, log: Log | None = None):
        """Execute one case; return the first Violation or None."""
        if case.get("kind") == "default":
            from . import ctx_default

            return ctx_default.run_case(case, col, log or Log())
        run = _Run(self.prop, case, col, log or Log())
        try:
            with core.gc_controlled():
                run.setup()
                try:
                    run.execute()
                finally:
                    run.teardown()
        except Violation as v:
            v.sig = run.signature(v)
            return v
        return None

    # ---------------------------------------------------------------- evidence
    def sample(self, case):
        if case.get("kind") == "default":
            return {"index": case["index"], "kind": "bundled registry and contexts", "program": case["program"],
                    "fault_plan": case["faults"]}
        return {"index": case["index"], "knobs": case["knobs"], "definitions": render(case["spec"]),
                "python_contexts": [c["name"] for c in case["spec"]["contexts"] if c["via"] != "file"],
                "program": case["program"], "fault_plan": case["faults"]}

    def describe(self):
        common_real = ["pint (registry, context facet, parser, evaluator) from the working tree of /repo",
                       "flexparser (definition parsing)", "Python's with-statement / decorator machinery"]
        stubs = ["user callables of Python-made contexts (simulator-supplied, may raise a sentinel on command)",
                 "memo tables wrapped in FlakyDict (forced misses)", "ParserHelper.from_string lru re-wrapped with a per-run size"]
        if self.prop == "C12":
            rule = ("one case = generated definitions (units, prefixes, 1-6 contexts with rules, parameters, "
                    "redefinitions, contexts whose j-th redefinition is invalid) + a tree-shaped program of "
                    "enable/disable/with/decorated-call/try/raise/probe/define/gc statements run with real with-blocks "
                    "+ an explicit fault plan (forced memo misses per table, raising callbacks, invalid activations at "
                    "position k). After every statement the active stack is read back through private marker rules and "
                    "pairwise shared rules and compared with a reference stack; a question battery is replayed whenever "
                    "a model state is revisited. distinct_nontrivial = distinct transitions (statement kind or observed "
                    "stack of context ids (top 4), depth/outcome, overlay active?) excluding those in the initial empty state.")
        else:
            rule = ("one case = generated definitions and contexts (overlapping rules in several contexts, chains of "
                    "different length, several shortest chains, parameters inherited/overridden, redefinitions with "
                    "dependants, python-callable rules) + a program of activations in four forms and probe conversions in "
                    "seven forms; each probe result must equal the exact value (Fraction worlds) of some shortest chain "
                    "computed by a cache-free reference model. One run in eight uses the bundled registry and its seven "
                    "contexts (spectroscopy, boltzmann, energy, chemistry with parameters, textile, Gaussian, ESU) with "
                    "expected values from an independent reader and evaluator of default_en.txt (tolerance 1e-9). "
                    "distinct_nontrivial = distinct (probe form, outcome kind, "
                    "stack depth, per-call activation?, overlay?) and stack transitions outside the initial empty state.")
        return {
            "rule": rule,
            "trivial": lambda t: t.startswith("stack|()|") or "|0|False|False" in t and t.startswith("probe|"),
            "real": common_real,
            "stubs": stubs,
            "assumptions": [
                "sampling, not enumeration: a clean batch is evidence, not proof",
                "values are compared with the reference model with relative tolerance 1e-9 in float worlds and exactly in Fraction worlds; answers of a revisited stack state of one registry are compared bit for bit",
                "parameter inheritance is asserted only where unambiguous (DESIGN.md O2)",
                "units defined while a redefining context is active are not probed afterwards (DESIGN.md O3)",
                "the reference model shares no code with pint but was written by the same author as the checks",
            ],
        }

    # ---------------------------------------------------------------- minimisation
    def shrink(self, case):
        if case.get("kind") == "default":
            from . import ctx_default

            yield from ctx_default.shrink(case)
            return
        prog = case["program"]
        # 1. delete statements (all levels)
        for cand in _shrink_program(prog):
            c = dict(case)
            c["program"] = cand
            yield c
        # 2. switch faults off
        f = case["faults"]
        if f["rates"]:
            c = dict(case)
            c["faults"] = dict(f, rates={})
            yield c
            for site in list(f["rates"]):
                c = dict(case)
                c["faults"] = dict(f, rates={k: v for k, v in f["rates"].items() if k != site})
                yield c
        # 3. knobs
        for k, v in (("tworeg", False), ("system", False), ("lru", 128)):
            if case["knobs"].get(k) not in (v, None) or (k == "lru" and case["knobs"].get(k) != 128):
                c = copy.deepcopy(case)
                c["knobs"][k] = v
                if k == "system":
                    for kk in ("groups", "systems", "default_system"):
                        c["spec"].pop(kk, None)
                    for u in c["spec"]["units"]:
                        u.pop("group", None)
                yield c
        # 4. world: drop rules and redefinitions, unreferenced contexts
        used = _used_contexts(prog)
        spec = case["spec"]
        for i, ctx in enumerate(spec["contexts"]):
            normal = [r for r in ctx["rules"] if not r.get("marker")]
            for r in normal:
                c = copy.deepcopy(case)
                c["spec"]["contexts"][i]["rules"] = [q for q in ctx["rules"] if q["id"] != r["id"]]
                yield c
            for j in range(len(ctx["redefs"])):
                if ctx["bad"] and j == len(ctx["redefs"]) - 1:
                    continue
                c = copy.deepcopy(case)
                del c["spec"]["contexts"][i]["redefs"][j]
                yield c
            if ctx["via"] != "file" and i in used:
                c = copy.deepcopy(case)
                c["spec"]["contexts"][i]["via"] = "file"
                for r in c["spec"]["contexts"][i]["rules"]:
                    r["py"] = False
                _fix_refs(c["program"], i)
                yield c
        # 5. simplify statements
        for cand in _simplify_program(prog):
            c = dict(case)
            c["program"] = cand
            yield c


def _used_contexts(prog):
    used = set()

    def walk(stmts):
        for s in stmts:
            for r in s.get("ctxs", ()):
                if "c" in r:
                    used.add(r["c"])
            if "ctx" in s:
                used.add(s["ctx"]["c"])
            walk(s.get("body", ()))

    walk(prog)
    return used


def _fix_refs(prog, i):
    for s in prog:
        for r in s.get("ctxs", ()):
            if r.get("c") == i and r["via"] == "obj":
                r["via"] = "name"
        if "ctx" in s and s["ctx"]["c"] == i and s["ctx"]["via"] == "obj":
            s["ctx"]["via"] = "name"
        _fix_refs(s.get("body", ()), i)


def _shrink_program(prog):
    """Smaller programs: sub-lists at top level, then recursively inside bodies, then
    replacing a compound statement by its body."""
    for cand in ddmin_list(prog):
        yield cand
    for idx, s in enumerate(prog):
        if "body" in s:
            yield prog[:idx] + s["body"] + prog[idx + 1:]
            for sub in _shrink_program(s["body"]):
                yield prog[:idx] + [dict(s, body=sub)] + prog[idx + 1:]


def _simplify_program(prog):
    for idx, s in enumerate(prog):
        if s.get("kw"):
            yield prog[:idx] + [dict(s, kw={})] + prog[idx + 1:]
        if s.get("ctxs") and len(s["ctxs"]) > 1:
            for j in range(len(s["ctxs"])):
                yield prog[:idx] + [dict(s, ctxs=s["ctxs"][:j] + s["ctxs"][j + 1:])] + prog[idx + 1:]
        if s["k"] == "probe":
            if s.get("ctxs") and s["form"] in ("compat_q", "compat_units"):
                t = dict(s)
                t.pop("ctxs")
                yield prog[:idx] + [t] + prog[idx + 1:]
            if s["form"] not in ("to", "to_ctx", "compat_units", "compat_q"):
                yield prog[:idx] + [dict(s, form="to")] + prog[idx + 1:]
        if "body" in s:
            for sub in _simplify_program(s["body"]):
                yield prog[:idx] + [dict(s, body=sub)] + prog[idx + 1:]


# =========================================================================== one run
class _Run:
    def __init__(self, prop, case, col, log):
        self.prop = prop
        self.case = case
        self.col = col
        self.log = log
        self.spec = case["spec"]
        self.knobs = case["knobs"]
        self.plan = FaultPlan(case["faults"])
        self.model = CtxModel(self.spec)
        self.exact = self.knobs["numtype"] == "Fraction"
        self.memory = {}  # (model state key, question) -> answer
        self.in_probe = False
        self.ended = False
        self.last_fail = None
        self.healed = set()  # kinds of invalid context made valid by a run-time definition ('undef', 'undim')

    # ------------------------------------------------------------ setup / teardown
    def num(self, s):
        s = str(s)
        if self.exact:
            return int(s) if s.lstrip("-").isdigit() else Fraction(s)
        return int(s) if s.lstrip("-").isdigit() else float(s)

    def setup(self):
        pint = core.import_pint()
        self.pint = pint
        import pint.facets.context.registry as creg
        import pint.util as putil

        self._creg = creg
        self._orig_overlay = creg.ContextCacheOverlay
        plan, col = self.plan, self.col

        class SimOverlay(self._orig_overlay):
            def __init__(self, registry_cache):
                super().__init__(registry_cache)
                col.probe("overlay_created")
                self.root_units = core.FlakyDict(self.root_units, "root_units", "getitem", plan, col)
                self.conversion_factor = core.FlakyDict(self.conversion_factor, "conversion_factor", "getitem", plan, col)

        creg.ContextCacheOverlay = SimOverlay
        # process-wide lru of parsed strings: size is a per-run knob
        self._putil = putil
        self._orig_from_string = putil.ParserHelper.__dict__["from_string"]
        import functools

        raw = self._orig_from_string.__func__.__wrapped__
        putil.ParserHelper.from_string = classmethod(functools.lru_cache(maxsize=self.knobs.get("lru", 128))(raw))

        lines = render(self.spec)
        self.lines = lines
        T = Fraction if self.exact else float
        kw = {"on_redefinition": self.knobs.get("on_redef", "warn"), "case_sensitive": not self.knobs.get("ci")}
        if self.spec.get("default_system"):
            kw["system"] = self.spec["default_system"]
        try:
            self.regs = [pint.UnitRegistry(list(lines), non_int_type=T, **kw)]
            if self.knobs.get("tworeg"):
                self.regs.append(pint.UnitRegistry(list(lines), non_int_type=T, **kw))
        except Exception as e:  # the generator must only produce loadable worlds
            raise HarnessError(f"world does not load: {type(e).__name__}: {e}")
        # contexts
        self.ctxobj = {}
        self.snap = {}
        for i, c in enumerate(self.spec["contexts"]):
            if c.get("dropped"):
                continue
            if c["via"] == "file":
                for ri, ureg in enumerate(self.regs):
                    obj = ureg.remove_context(c["name"])
                    ureg.add_context(obj)
                    self.ctxobj[(ri, i)] = obj
            else:
                obj = pint.Context(c["name"] if c["via"] == "py" else None, tuple(c["aliases"]),
                                   {k: self.num(v) for k, v in c["defaults"].items()})
                for r in c["rules"]:
                    f = self.make_func(r, c) if r.get("py") else self.make_eq_func(r)
                    obj.add_transformation(mono_str(r["src"]), mono_str(r["dst"]), f)
                    if r["bidir"]:
                        obj.add_transformation(mono_str(r["dst"]), mono_str(r["src"]), f)
                for rd in c["redefs"]:
                    obj.redefine(f"{rd.get('as', rd['name'])} = {rd['factor']} * {mono_str(rd['ref'])}")
                for ri, ureg in enumerate(self.regs):
                    if c["via"] == "py":
                        ureg.add_context(obj)
                    self.ctxobj[(ri, i)] = obj  # one object shared by all registries
            self.snap[i] = self.snapshot_ctx(self.ctxobj[(0, i)])
        self.models = [self.model] + [CtxModel(self.spec) for _ in self.regs[1:]]
        # long-lived objects created before the first activation
        self.longlived = []
        t = self.model.base
        for ri, ureg in enumerate(self.regs):
            objs = []
            for n in t.order[:6]:
                objs.append((n, ureg.Quantity(self.num("3"), n), ureg.Unit(n)))
            self.longlived.append(objs)
        self.battery = self.make_battery()
        for ri, ureg in enumerate(self.regs):
            core.install_flaky(ureg, self.plan, self.col)
        self.log.ev("setup", len(lines), self.knobs)
        for ri in range(len(self.regs)):
            self.run_battery(ri, "init")

    def teardown(self):
        self._creg.ContextCacheOverlay = self._orig_overlay
        self._putil.ParserHelper.from_string = self._orig_from_string
        try:
            ci = self._putil.ParserHelper.from_string
        except Exception:
            pass

    def snapshot_ctx(self, obj):
        return (obj.name, tuple(obj.aliases), tuple(sorted((k, str(v)) for k, v in obj.defaults.items())),
                tuple(id(r) for r in obj.redefinitions), len(obj.funcs),
                tuple(sorted(id(f) for f in obj.funcs.values())))

    def make_eq_func(self, r):
        eq = equation(r)
        return lambda ureg, value, **kw: ureg.parse_expression(eq, value=value, **kw)

    def make_func(self, r, c):
        run = self
        K = self.num(r["K"])
        mstr = mono_str(r["M"], one="1") if r["M"] else ""
        rid = r["id"]
        declared = {k: self.num(v) for k, v in c["defaults"].items()}

        def func(ureg, value, **kw):
            if run.in_probe and run.plan.fires("cb"):
                run.col.fault("callback_raises")
                raise Sentinel(rid)
            k = K
            if r["par"]:
                p, e = r["par"]
                k = k * kw.get(p, declared.get(p)) ** e if e != -1 else k / kw.get(p, declared.get(p))
            m = ureg.Quantity(1, mstr) if mstr else 1
            if r["kind"] == "lin":
                return value * k * m
            return k * m / value

        return func

    def make_battery(self):
        t = self.model.base
        qs = []
        names = [n for n in t.order if n not in ("umk", "uobs", "tw", "TW")]
        by = {}
        for n in names:
            _, d = t.root_of_unit(n)
            by.setdefault(vec_key(d), []).append(n)
        bod = t.base_unit_of_dim()
        for n in names:
            _, d = t.root_of_unit(n)
            basemono = {bod[k]: e for k, e in d.items()}
            qs.append(["conv", "3", {n: 1}, basemono])
            qs.append(["root", {n: 1}])
            qs.append(["base", {n: 1}])
            qs.append(["tobase", "2", {n: 1}])
            qs.append(["compat", n])
            qs.append(["parse", n])
            u = t.units[n]
            if u.get("symbol"):
                qs.append(["parse", u["symbol"]])
            qs.append(["conv", "5", {"K" + n: 1}, {n: 1}])
        for k, lst in by.items():
            for a in lst[1:3]:
                qs.append(["conv", "7", {lst[0]: 1}, {a: 1}])
                qs.append(["conv", "7", {a: 1}, {lst[0]: 1}])
        # cross-dimension pairs on rule endpoints (answers depend on the active stack)
        seen = set()
        for c in self.spec["contexts"]:
            for r in c["rules"]:
                if r.get("marker"):
                    continue
                vs, vd = t.dimvec(r["src"]), t.dimvec(r["dst"])
                key = (vec_key(vs), vec_key(vd))
                if key in seen:
                    continue
                seen.add(key)
                qs.append(["conv", "2", {bod[k]: e for k, e in vs.items()}, {bod[k]: e for k, e in vd.items()}])
        for i in range(min(6, len(t.order))):
            qs.append(["long", i])
        if self.knobs.get("on_redef") == "raise":
            # a registry told to refuse redefinitions keeps refusing them, whatever happened before
            for n in names[:3]:
                qs.append(["redef", n])
        return qs

    # ------------------------------------------------------------ questions
    def ask(self, ri, q):
        """One read-only question; normalised answer (value or exception class)."""
        ureg = self.regs[ri]
        kind = q[0]
        try:
            if kind == "conv":
                r = ureg.Quantity(self.num(q[1]), mono_str(q[2])).to(mono_str(q[3]))
                return ["ok", norm_num(r.magnitude), norm_units(r)]
            if kind == "root":
                f, u = ureg.get_root_units(mono_str(q[1]))
                return ["ok", norm_num(f), norm_units(u)]
            if kind == "base":
                f, u = ureg.get_base_units(mono_str(q[1]))
                return ["ok", norm_num(f), norm_units(u)]
            if kind == "tobase":
                r = ureg.Quantity(self.num(q[1]), mono_str(q[2])).to_base_units()
                return ["ok", norm_num(r.magnitude), norm_units(r)]
            if kind == "compat":
                s = ureg.get_compatible_units(q[1])
                return ["ok", sorted(norm_units(u)[0][0] for u in s)]
            if kind == "parse":
                return ["ok", norm_units(ureg.parse_units(q[1]))]
            if kind == "redef":
                u = self.model.base.units[q[1]]
                ureg.define(f"{q[1]} = [d0]" if "dim" in u else f"{q[1]} = {u['factor']} * {mono_str(u['ref'], one='1')}")
                return ["ok", "accepted"]
            if kind == "long":
                n, qq, uu = self.longlived[ri][q[1]]
                r = qq.to_root_units()
                return ["ok", norm_num(r.magnitude), norm_units(r), norm_units(uu.dimensionality),
                        norm_units(qq.dimensionality)]
        except Sentinel:
            raise
        except Exception as e:
            return ["exc", exc_name(e)]
        raise HarnessError(f"unknown question {q}")

    def run_battery(self, ri, why):
        model = self.models[ri]
        if model.has_ambig():
            return
        self.plan.at_step(f"bat{self.col.steps}")
        key = (ri, model.key())
        for q in self.battery:
            qk = json.dumps(q, sort_keys=True)
            a = self.ask(ri, q)
            epoch = model.epoch if q[0] == "compat" else 0
            mk = (key, qk, epoch)
            self.col.checks += 1
            if mk in self.memory:
                if not core.answers_equal(self.memory[mk], a, BATTERY_REL):
                    rule = "C12.residue" if not model.stack else "C12.stack-state"
                    self.violate(rule, self.cur_id, {
                        "question": q, "registry": ri, "stack": _stack_json(model),
                        "first_answer": self.memory[mk], "answer_now": a, "when": why})
            else:
                self.memory[mk] = a
        self.log.ev("battery", ri, why, len(self.battery))

    # ------------------------------------------------------------ observation of the stack
    def observe(self, ri, why):
        """Read the active stack through behaviour only: marker and pair rules."""
        ureg = self.regs[ri]
        model = self.models[ri]
        self.plan.at_step(f"obs{self.col.steps}")
        ctxs = self.spec["contexts"]
        latest = {}
        for pos, (i, p) in enumerate(model.stack):
            latest[i] = (pos, p)
        obs = []
        for i, c in enumerate(ctxs):
            if c.get("dropped") or c.get("nomarker"):
                continue
            m = next(r for r in c["rules"] if r["id"] == f"m{i}")
            got = self._convert_marker(ureg, i + 1)
            if i in latest:
                p = latest[i][1]
                k = frac(m["K"])
                exp = ("val", k)
                if m["par"]:
                    v = p.get(m["par"][0])
                    exp = ("any",) if v in (None, AMBIG) else ("val", k * frac(v))
            else:
                exp = ("err",)
            self._cmp_marker(ri, why, f"marker c{i}", exp, got)
            obs.append(got[0])
        n = len(ctxs)
        pi = 0
        for a in range(n):
            for b in range(a + 1, n):
                e = 10 + pi
                pi += 1
                if ctxs[a].get("dropped") or ctxs[b].get("dropped") or ctxs[a].get("nomarker") or ctxs[b].get("nomarker"):
                    continue
                got = self._convert_marker(ureg, e)
                act = [x for x in (a, b) if x in latest]
                if not act:
                    exp = ("err",)
                else:
                    w = max(act, key=lambda x: latest[x][0])
                    r = next(r for r in ctxs[w]["rules"] if r["id"] == f"p{a}_{b}_{w}")
                    exp = ("val", frac(r["K"]))
                self._cmp_marker(ri, why, f"order c{a}/c{b}", exp, got)
        self.col.trans("stack", tuple(i for i, _ in model.stack)[-4:], why)

    def _convert_marker(self, ureg, e):
        try:
            r = ureg.Quantity(self.num("1"), f"umk ** {e}").to("uobs")
            return ("val", r.magnitude)
        except Sentinel:
            raise
        except Exception as ex:
            return ("err", exc_name(ex))

    def _cmp_marker(self, ri, why, what, exp, got):
        self.col.checks += 1
        ok = True
        if exp[0] == "err":
            ok = got[0] == "err" and got[1] == "DimensionalityError"
        elif exp[0] == "any":
            ok = got[0] == "val"
        else:
            ok = got[0] == "val" and core.num_close(norm_num(got[1]), norm_num(exp[1]))
        if not ok:
            rule = "C12.atomic" if self.last_fail == self.cur_id else "C12.stack"
            self.violate(rule, self.cur_id, {
                "what": what, "registry": ri, "model_stack": _stack_json(self.models[ri]),
                "expected": [exp[0]] + [norm_num(x) for x in exp[1:]],
                "got": [got[0], norm_num(got[1]) if got[0] == "val" else got[1]], "when": why})

    def check_ctx_objects(self, why):
        for i, s in self.snap.items():
            now = self.snapshot_ctx(self.ctxobj[(0, i)])
            self.col.checks += 1
            if now != s:
                self.violate("C12.ctx-mutated", self.cur_id, {
                    "context": i, "when": why,
                    "changed": [k for k, (a, b) in enumerate(zip(s, now)) if a != b]})
                self.snap[i] = now  # (only reached when another property is being checked)

    def after(self, s, ri, why, changed=True):
        self.observe(ri, why)
        if changed:
            self.run_battery(ri, why)
        self.check_ctx_objects(why)
        for rj in range(len(self.regs)):
            if rj != ri and changed:
                self.observe(rj, why + ":other")

    # ------------------------------------------------------------ interpreter
    def execute(self):
        self.cur_id = 0
        try:
            self.block(self.case["program"])
        except Sentinel:
            pass
        except _EndRun:
            return
        # the run ends by leaving everything: the registry must answer as at the beginning
        self.cur_id = "end"
        try:
            for ri, ureg in enumerate(self.regs):
                self.plan.at_step("end")
                ureg.disable_contexts()
                self.models[ri].pop(None)
                self.after(None, ri, "end")
        except _EndRun:
            # the other property of this world failed in the closing stage: no verdict, not a harness error
            return

    def block(self, stmts):
        for s in stmts:
            self.stmt(s)

    def guarded_block(self, stmts):
        """Body of a real with-block: only the sentinel may escape through pint's frames; any
        other exception here is a defect of the harness, not of pint's __exit__."""
        try:
            self.block(stmts)
        except (Sentinel, Violation, HarnessError, _EndRun):
            raise
        except Exception as e:
            raise HarnessError(f"statement leaked {type(e).__name__}: {e}") from e

    def violate(self, rule, step, detail):
        if rule.startswith(self.prop + "."):
            raise Violation(rule, step, detail)
        self.col.probe("other_property:" + rule)
        if rule == "C12.ctx-mutated":
            return  # the stack model is still in step: C11 goes on and judges the values that follow
        if rule.startswith("C12."):
            # the stack model may be out of step with pint: no verdict on the rest of this run
            raise _EndRun()

    def reg_of(self, s):
        return s["id"] % len(self.regs) if len(self.regs) > 1 else 0

    def ctx_args(self, ri, refs):
        """(arguments for pint, model indexes or None if the list cannot activate)."""
        args, idxs, bad = [], [], False
        for r in refs:
            if "bad" in r:
                args.append(r["bad"])
                bad = True
                continue
            c = self.spec["contexts"][r["c"]]
            if c.get("dropped"):
                raise HarnessError("reference to dropped context")
            if c["bad"] and c["bad"] not in self.healed:
                bad = True
            via = r["via"]
            if via == "alias" and not c["aliases"]:
                via = "name"
            if c["via"] == "anon":
                via = "obj"
            if via == "obj":
                args.append(self.ctxobj[(ri, r["c"])])
            elif via == "alias":
                args.append(c["aliases"][0])
            else:
                args.append(c["name"])
            idxs.append(r["c"])
        return args, (None if bad else idxs)

    def kwargs(self, kw):
        if any(isinstance(v, list) for v in kw.values()):
            return {k: [self.num(x) for x in v] if isinstance(v, list) else self.num(v) for k, v in kw.items()}, {}
        return {k: self.num(v) for k, v in kw.items()}, {k: frac(v) for k, v in kw.items()}

    def stmt(self, s):
        self.col.steps += 1
        self.cur_id = s["id"]
        ri = self.reg_of(s)
        ureg, model = self.regs[ri], self.models[ri]
        self.plan.at_step(s["id"])
        for u in self.regs:
            core.install_flaky(u, self.plan, self.col)
        k = s["k"]
        depth = len(model.stack)
        if k == "enable":
            args, idxs = self.ctx_args(ri, s["ctxs"])
            pkw, mkw = self.kwargs(s["kw"])
            if s.get("unhashable"):
                idxs = None  # must fail
            out = "ok"
            try:
                ureg.enable_contexts(*args, **pkw)
            except Sentinel:
                raise
            except Exception as e:
                out = exc_name(e)
            self.finish_activation(s, ri, idxs, mkw, out, "enable")
            self.after(s, ri, "enable")
        elif k == "disable":
            ureg.disable_contexts(s["n"])
            model.pop(s["n"])
            self.log.ev(s["id"], "disable", s["n"], len(model.stack))
            self.col.trans("disable", min(depth, 4), s["n"] if s["n"] is None else min(s["n"], 3))
            self.after(s, ri, "disable")
        elif k == "with":
            args, idxs = self.ctx_args(ri, s["ctxs"])
            pkw, mkw = self.kwargs(s["kw"])
            entered = False
            try:
                with ureg.context(*args, **pkw):
                    entered = True
                    self.finish_activation(s, ri, idxs, mkw, "ok", "with")
                    self.after(s, ri, "with-enter")
                    self.guarded_block(s["body"])
            except Sentinel:
                if entered:
                    self.cur_id = s["id"]
                    model.pop(len(args))
                    self.col.probe("with_left_by_exception")
                    self.log.ev(s["id"], "with-exit-exc", len(model.stack))
                    self.after(s, ri, "with-exit-exc")
                raise
            except (Violation, HarnessError, _EndRun):
                raise
            except Exception as e:
                if entered:
                    self.violate("C12.with-exit-raised", s["id"], {"exc": exc_name(e), "msg": str(e)[:200]})
                self.finish_activation(s, ri, idxs, mkw, exc_name(e), "with")
                self.after(s, ri, "with-failed")
            else:
                self.cur_id = s["id"]
                model.pop(len(args))
                self.log.ev(s["id"], "with-exit", len(model.stack))
                self.after(s, ri, "with-exit")
        elif k == "call":
            args, idxs = self.ctx_args(ri, [s["ctx"]])
            pkw, mkw = self.kwargs(s["kw"])
            state = {"entered": False}

            def inner():
                state["entered"] = True
                self.finish_activation(s, ri, idxs, mkw, "ok", "call")
                self.after(s, ri, "call-enter")
                self.guarded_block(s["body"])
                return 1

            f = ureg.with_context(args[0], **pkw)(inner)
            try:
                f()
            except Sentinel:
                if state["entered"]:
                    self.cur_id = s["id"]
                    model.pop(1)
                    self.col.probe("call_left_by_exception")
                    self.after(s, ri, "call-exit-exc")
                raise
            except (Violation, HarnessError, _EndRun):
                raise
            except Exception as e:
                if state["entered"]:
                    self.violate("C12.with-exit-raised", s["id"], {"exc": exc_name(e), "msg": str(e)[:200]})
                self.finish_activation(s, ri, idxs, mkw, exc_name(e), "call")
                self.after(s, ri, "call-failed")
            else:
                self.cur_id = s["id"]
                model.pop(1)
                self.after(s, ri, "call-exit")
        elif k == "try":
            try:
                self.block(s["body"])
            except Sentinel:
                self.col.probe("sentinel_caught")
                self.log.ev(s["id"], "caught")
        elif k == "raise":
            self.log.ev(s["id"], "raise")
            self.col.fault("raise_in_block")
            raise Sentinel("raise")
        elif k == "gc":
            n = gc.collect()
            self.col.fault("gc_now")
            self.log.ev(s["id"], "gc")
            self.after(s, ri, "gc", changed=False)
        elif k == "define":
            self.do_define(s, ri)
        elif k == "define_dim":
            self.col.steps += 1
            if "undim" in self.healed or any(m.overlay_active() for m in self.models):
                return
            for ureg in self.regs:
                try:
                    ureg.define(f"{s['name']} = {mono_str(s['ref'])}")
                except Exception as e:
                    self.violate("C12.define-raised", s["id"], {"exc": exc_name(e), "line": s["name"]})
            self.healed.add("undim")
            self.col.probe("invalid_context_healed:dimension")
            self.log.ev(s["id"], "define_dim", s["name"])
            self.after(s, ri, "define")
        elif k == "probe":
            self.do_probe(s, ri)
        else:
            raise HarnessError(f"unknown statement {k}")

    def finish_activation(self, s, ri, idxs, mkw, out, form):
        """Reconcile an activation's outcome with the model."""
        model = self.models[ri]
        depth = len(model.stack)
        if idxs is None:
            if out == "ok":
                # An unknown context name, or a redefinition of an undefined / prefixed / base unit or
                # one that changes dimensionality (the four cases pint's own suite expects to raise),
                # was accepted: the activation that had to fail did not, whatever is active now.
                self.violate("C12.invalid-accepted", s["id"], {
                    "form": form, "contexts": s.get("ctxs") or [s.get("ctx")], "stack": _stack_json(model),
                    "invalid": ["unhashable parameter"] if s.get("unhashable") else
                               [self.spec["contexts"][r["c"]]["bad"] if "c" in r else "unknown name"
                                for r in (s.get("ctxs") or [s.get("ctx")])
                                if "bad" in r or self.spec["contexts"][r["c"]]["bad"]]})
                raise _EndRun()
            self.last_fail = s["id"]
            self.col.fault("bad_activation")
            self.col.trans(form, min(depth, 4), "failed", out)
            self.log.ev(s["id"], form, "failed", out)
            return
        if out != "ok":
            self.violate("C12.activation-raised", s["id"], {"form": form, "exc": out,
                                                              "stack": _stack_json(model)})
        model.push(idxs, mkw)
        self.col.trans(form, min(depth, 4), len(idxs), bool(mkw), model.overlay_active())
        self.log.ev(s["id"], form, idxs, sorted(mkw), len(model.stack))

    def do_define(self, s, ri):
        # the same statement is applied to every registry so that they keep the same definitions
        line = f"{s['name']} = {s['factor']} * {mono_str(s['ref'])}"
        if s.get("heal"):
            if "undef" in self.healed or any(m.overlay_active() for m in self.models):
                return  # once, and only into the registry proper (DESIGN.md O3)
        for rj, ureg in enumerate(self.regs):
            model = self.models[rj]
            try:
                ureg.define(line)
            except Exception as e:
                self.violate("C12.define-raised", s["id"], {"exc": exc_name(e), "line": line})
            if model.overlay_active():
                model.tainted.add(s["name"])
                self.col.probe("define_inside_overlay")
            else:
                model.runtime[s["name"]] = {"name": s["name"], "factor": s["factor"], "ref": dict(s["ref"])}
                model.epoch += 1
                self.col.probe("define_plain")
                if s.get("heal"):
                    self.healed.add("undef")
                    self.col.probe("invalid_context_healed")
        self.log.ev(s["id"], "define", s["name"])
        self.after(s, ri, "define")

    def do_probe(self, s, ri):
        ureg, model = self.regs[ri], self.models[ri]
        if s.get("needs_heal") and "nosuch" not in model.runtime:
            return  # the unit was not defined (a redefining context was active): nothing to ask
        src, dst = dict(s["src"]), dict(s["dst"])
        if s.get("use_def") and model.runtime:
            # use the most recent run-time unit if it is plainly defined
            n = sorted(model.runtime)[-1]
            src = {n: 1}
            dst = dict(model.runtime[n]["ref"])
        x = self.num(s["x"])
        form = s["form"]
        extra_args, extra_idx, pkw, mkw = [], [], {}, {}
        if s.get("ctxs"):
            extra_args, extra_idx = self.ctx_args(ri, s["ctxs"])
            pkw, mkw = self.kwargs(s.get("kw", {}))
        ssrc, sdst = mono_str(src), mono_str(dst)
        self.in_probe = True
        try:
            try:
                if form in ("to", "to_ctx"):
                    r = ureg.Quantity(x, ssrc).to(sdst, *extra_args, **pkw)
                    got = ("val", r.magnitude, norm_units(r))
                elif form == "ito":
                    q = ureg.Quantity(x, ssrc)
                    q.ito(sdst, *extra_args, **pkw)
                    got = ("val", q.magnitude, norm_units(q))
                elif form == "convert":
                    got = ("val", ureg.convert(x, ssrc, sdst), None)
                elif form == "compat_q":
                    got = ("bool", ureg.Quantity(x, ssrc).is_compatible_with(sdst, *extra_args, **pkw))
                elif form == "compat_units":
                    res = ureg.Quantity(x, ssrc).compatible_units(*extra_args)
                    got = ("set", sorted(norm_units(u)[0][0] for u in res))
                else:
                    raise HarnessError(form)
            except Sentinel:
                got = ("sentinel",)
            except (HarnessError, Violation):
                raise
            except Exception as e:
                got = ("err", exc_name(e))
        finally:
            self.in_probe = False
        # model
        pushed = 0
        if extra_args:
            if extra_idx is None:
                exp = {("err", "*")}
                self.last_fail = s["id"]
                self.col.fault("bad_activation")
            else:
                model.push(extra_idx, mkw)
                pushed = len(extra_idx)
        try:
            if not (extra_args and extra_idx is None):
                frx = frac(s["x"])
                table = model.table()
                if form == "compat_units":
                    _, ds = table.root(src)
                    reach = model.reachable_dims(vec_key(ds))
                    names = []
                    for n in model.base.order:
                        _, d = table.root_of_unit(n)
                        if vec_key(d) in reach:
                            names.append(n)
                    exp = {("set", tuple(sorted(names)))}
                else:
                    exp = model.expected_convert(frx, src, dst, table)
        finally:
            if pushed:
                model.pop(pushed)
        self.check_probe(s, ri, form, exp, got, dst)
        self.log.ev(s["id"], "probe", form, got[0], norm_num(got[1]) if got[0] == "val" else (got[1] if len(got) > 1 else None))
        self.col.trans("probe", form, got[0], min(len(model.stack), 4), bool(extra_args), model.overlay_active())
        # a per-call activation must be gone afterwards (also after a failure inside it)
        self.after(s, ri, "probe", changed=bool(extra_args))

    def check_probe(self, s, ri, form, exp, got, dst):
        model = self.models[ri]
        self.col.checks += 1
        if got[0] == "sentinel":
            return
        kinds = {e[0] for e in exp}
        if "unknown" in kinds:
            self.col.probe("ambiguous_parameter")
            return
        ok = False
        if ("err", "*") in exp:
            ok = got[0] == "err"
            if got[0] != "err":
                self.violate("C12.invalid-accepted", s["id"], {"form": form, "contexts": s.get("ctxs"),
                                                               "stack": _stack_json(model), "got": got[0]})
                raise _EndRun()
        elif form == "compat_q":
            want = {e[0] == "val" for e in exp}
            ok = got[0] == "bool" and got[1] in want
        elif form == "compat_units":
            (_, names), = exp
            runtime_names = set(model.runtime) | model.tainted
            ok = got[0] == "set" and tuple(n for n in got[1] if n not in runtime_names) == names
        else:
            for e in exp:
                if e[0] == "err" and got[0] == "err" and got[1] == e[1]:
                    ok = True
                if e[0] == "val" and got[0] == "val" and core.num_close(norm_num(got[1]), norm_num(e[1])):
                    ok = True
            if ok and got[0] == "val" and got[2] is not None:
                # the result is expressed in the requested units
                want_units = sorted([k, v] for k, v in model.table().canonical(dst).items())
                if got[2] != want_units:
                    ok = False
            if len(exp) > 1:
                self.col.probe("several_shortest_chains")
        if not ok:
            self.violate("C11.value", s["id"], {
                "form": form, "x": s["x"], "src": s["src"], "dst": s["dst"], "registry": ri,
                "per_call": s.get("ctxs"), "kw": s.get("kw"), "stack": _stack_json(model),
                "expected_any_of": sorted([[e[0]] + [norm_num(x) if not isinstance(x, (str, tuple)) else x for x in e[1:]] for e in exp], key=repr),
                "got": [got[0]] + [norm_num(x) if not isinstance(x, (str, list, bool)) and x is not None else x for x in got[1:]]})

    # ------------------------------------------------------------ signature for known findings
    def signature(self, v: Violation) -> str:
        d = v.detail
        if v.rule in ("C12.residue", "C12.stack-state"):
            return f"{v.rule}/{d['question'][0]}"
        if v.rule in ("C12.atomic", "C12.stack"):
            return f"{v.rule}/{d['what'].split()[0]}/{d['when']}"
        if v.rule == "C11.value":
            return f"{v.rule}/{d['form']}/{d['got'][0]}"
        return v.rule


class _EndRun(Exception):
    pass


def _stack_json(model):
    return [[i, {k: norm_num(v) if v != AMBIG else v for k, v in p.items()}] for i, p in model.stack]
