"""World ``registries`` (C18): several registries in one process exchanging pickles through a
transport the simulator owns, the process-global application registry switched between send
and receive, a deep-copied registry evolving apart from its source, and the lazily built
default registry.

Every run executes in a forked child of the worker, which has imported pint and touched
nothing: the lazy default registry can be observed "before first use" only once per process.
"""

from __future__ import annotations

import copy
import json
import pickle
from decimal import Decimal
from fractions import Fraction

from .. import core
from ..core import Collector, HarnessError, Log, Violation, ddmin_list, exc_name, norm_num, norm_units
from ..questions import ask

UNIT_POOL = ["meter", "m", "km", "kilometer", "millimeters", "inch", "second", "ms", "microsecond", "hour", "kg", "gram",
             "milligram", "newton", "kN", "joule", "MJ", "eV", "keV", "watt", "mW", "hertz", "GHz", "kelvin", "degC", "liter",
             "mL", "nm", "angstrom", "ampere", "mA", "volt", "kV", "mole", "bar", "mbar", "pascal", "hPa", "radian", "degree",
             "byte", "kilobyte", "Mibit", "percent", "mph", "knot", "acre", "cm", "dyne", "erg", "gauss", "tesla", "coulomb",
             "farad", "pF", "calorie", "kcal", "atm", "torr", "light_year", "parsec", "week", "year", "ounce", "stone",
             "picomole", "femtoliter", "gigawatt_hour", "nanonewton", "kiloparsec", "centipoise", "microfarads"]
LOG_UNITS = ["decibel", "decibelwatt", "decibelmilliwatt", "decibelmicrowatt", "decade", "octave", "neper"]
EXTRA_DEFS = ["smoot = 1.7018 * meter = smt", "zork = 3 * second", "blip = 0.5 * kilogram * meter"]
BATTERY = [["conv", "3", "meter", "inch"], ["conv", "2", "kilometer", "mile"], ["parse_units", "kilosecond"],
           ["compat", "second"], ["base", "mile"], ["tobase", "5", "psi"], ["contains", "smoot"], ["contains", "zork"],
           ["conv", "500", "nm", "terahertz"], ["members", "root"], ["conv", "1", "xq1z", "meter"],
           ["members", "newgroup1"], ["fmt_q", "2.5", "meter / second ** 2", "~P"], ["name", "kilonewtons"], ["settings"],
           ["compat", "mile"], ["base", "gallon"], ["conv_ctx", "2", "second", "meter", "zctx"]]


def _zctx_rule(k):
    return lambda ureg, x, **kw: x * ureg.Quantity(k, "meter / second")


def num(s):
    s = str(s)
    return int(s) if s.lstrip("-").isdigit() else float(s)


def make_mag(m):
    t = m["t"]
    if t == "int":
        return int(m["v"])
    if t == "float":
        return float(m["v"])
    if t == "Fraction":
        return Fraction(m["v"])
    if t == "Decimal":
        return Decimal(m["v"])
    if t == "ndarray":
        import numpy as np

        return np.array(m["v"], dtype=float)
    raise HarnessError(t)


# =========================================================================== generation
class ProgGen:
    def __init__(self, rng):
        self.rng = rng
        self.nid = 0
        self.objs = []  # obj ids
        self.owner = {}  # obj id -> (node the object presumably belongs to, made through the unbound classes?)
        self.app = "L"
        self.msgs = 0
        self.nodes = ["A"]
        self.ndef = 0

    def sid(self):
        self.nid += 1
        return self.nid

    def unit_str(self, node):
        rng = self.rng
        def one():
            if node == "C" and rng.random() < 0.6:
                return rng.choice(["smoot", "kilosmoot", "smt", "zork", "millizorks"])
            return rng.choice(UNIT_POOL)
        if rng.random() < 0.55:
            return one()
        parts = [one()]
        for _ in range(rng.randint(1, 2)):
            parts.append(rng.choice([" * ", " / "]) + one() + rng.choice(["", "", " ** 2"]))
        return "".join(parts)

    def mag(self):
        rng = self.rng
        return rng.choice([{"t": "int", "v": rng.choice([0, 1, 3, -7, 1000])}, {"t": "float", "v": rng.choice([2.5, 0.001, -3.75, 1e6])},
                           {"t": "Fraction", "v": rng.choice(["3/4", "-7/3", "5"])}, {"t": "Decimal", "v": rng.choice(["1.25", "0.001", "12"])},
                           {"t": "ndarray", "v": [1.0, 2.5, -3.0]}, {"t": "ndarray", "v": [[1.0, 2.0], [3.0, 4.5]]}])

    def exc(self):
        rng = self.rng
        return rng.choice([
            {"cls": "DefinitionSyntaxError", "args": ["bad line 3"]},
            {"cls": "RedefinitionError", "args": ["meter", "<type:int>"]},
            {"cls": "DefinitionError", "args": ["foo", "<type:float>", "cannot"]},
            {"cls": "UndefinedUnitError", "args": ["quux"]},
            {"cls": "UndefinedUnitError", "args": [["quux", "frob"]]},
            {"cls": "DimensionalityError", "args": ["meter", "second"]},
            {"cls": "DimensionalityError", "args": ["meter", "second", "[length]", "[time]", " extra"]},
            {"cls": "OffsetUnitCalculusError", "args": ["degC"]},
            {"cls": "OffsetUnitCalculusError", "args": ["degC", "degF"]},
            {"cls": "OffsetUnitCalculusError", "args": ["degC", ""]},
            {"cls": "LogarithmicUnitCalculusError", "args": ["dB", ""]},
            {"cls": "LogarithmicUnitCalculusError", "args": ["dB"]},
            {"cls": "DimensionalityError", "args": ["meter", "second", "", "", ""]},
            {"cls": "DimensionalityError", "args": ["", "second", None, None, ""]},
            {"cls": "UndefinedUnitError", "args": [[]]},
            {"cls": "DefinitionSyntaxError", "args": [""]},
            {"raised": "offset_div"}, {"raised": "offset_mul"}, {"raised": "dim"}, {"raised": "undefined"}, {"raised": "log_add"},
            {"cls": "LogarithmicUnitCalculusError", "args": ["dB", "dBm"]},
            {"cls": "UnitStrippedWarning", "args": ["stripped"]},
            {"cls": "UndefinedBehavior", "args": ["undefined"]},
            {"cls": "PintTypeError", "args": ["some type problem"]},
        ])

    def step(self):
        rng = self.rng
        r = rng.random()
        sid = self.sid()
        if r < 0.22 or not self.objs:
            node = "app" if rng.random() < 0.3 else rng.choice(self.nodes)
            kind = rng.choice(["q", "q", "q", "u", "m", "uc", "exc"])
            s = {"id": sid, "k": "make", "node": node, "kind": kind}
            un = node if node != "app" else "A"
            if kind == "q":
                s.update(x=self.mag(), u=self.unit_str(un))
                if rng.random() < 0.15:
                    s["pow"] = rng.choice(["1/3", "2/3", "1/5", "1/2"])  # exponents a float cannot always represent
            elif kind == "u":
                s.update(u=self.unit_str(un))
            elif kind == "m":
                s.update(x=rng.choice([3.0, 10.5, 0.25]), err=rng.choice([0.1, 0.5, 0.0]), u=self.unit_str(un))
            elif kind == "uc":
                s.update(u=self.unit_str(un))
            else:
                s.update(exc=self.exc())
            self.objs.append(sid)
            if kind in ("q", "u", "m"):
                self.owner[sid] = (self.app if node == "app" else node, node == "app")
            return s
        if r < 0.42:
            how = rng.choice(["pickle", "pickle", "pickle", "copy", "deepcopy", "tuple"])
            s = {"id": sid, "k": "send", "obj": rng.choice(self.objs), "how": how}
            if how == "pickle":
                s["protocol"] = rng.randint(0, 5)
                self.msgs += 1
            return s
        if r < 0.60 and self.msgs:
            return {"id": sid, "k": "deliver", "which": rng.getrandbits(16), "keep": rng.random() < 0.25,
                    "newest": rng.random() < 0.3}
        if r < 0.68:
            node = rng.choice(self.nodes + ["L"])
            self.app = node
            return {"id": sid, "k": "app_switch", "node": node}
        if r < 0.74 and "B" not in self.nodes:
            self.nodes.append("B")
            return {"id": sid, "k": "copy_registry"}
        if r < 0.78 and "C" not in self.nodes:
            self.nodes.append("C")
            return {"id": sid, "k": "new_registry_C"}
        if r < 0.86:
            self.ndef += 1
            node = rng.choice([n for n in self.nodes if n in ("A", "B")])
            op = rng.choice(["define", "define", "define_prefix", "define_alias", "ctx_on", "ctx_off", "system", "new_group",
                             "group_add", "ctx_edit"])
            s = {"id": sid, "k": "evolve", "node": node, "op": op}
            if op == "define":
                s["line"] = f"xq{self.ndef}z = {rng.choice(['2', '0.5', '7'])} * meter"
            elif op == "define_prefix":
                s["op"] = "define"
                s["line"] = f"zp{self.ndef}q- = 1e{rng.choice([2, 4, -2])}"
                s["probe"] = ["conv", "1", f"zp{self.ndef}qmeter", "meter"]
            elif op == "define_alias":
                s["op"] = "define"
                s["line"] = f"@alias meter = za{self.ndef}q"
                s["probe"] = ["conv", "1", f"za{self.ndef}q", "inch"]
            elif op == "system":
                s["name"] = rng.choice(["SI", "cgs", "imperial", "mks"])
            elif op == "ctx_edit":
                s["factor"] = rng.choice([5, 7, 11])
            elif op == "new_group":
                s["name"] = f"newgroup{self.ndef}"
            elif op == "group_add":
                s["name"] = rng.choice(["international", f"newgroup{max(1, self.ndef - 1)}"])
                s["unit"] = rng.choice(["meter", "inch", "second"])
            return s
        if r < 0.93 and len(self.objs) >= 2:
            a, b = rng.sample(self.objs, 2)
            # prefer operands of different registries, and pairs that were both made through the unbound
            # pint.Quantity / pint.Unit under different application registries
            own = sorted(self.owner)
            pairs = [(x, y) for x in own for y in own if x < y and self.owner[x][0] != self.owner[y][0]]
            both_app = [(x, y) for x, y in pairs if self.owner[x][1] and self.owner[y][1]]
            if both_app and rng.random() < 0.5:
                a, b = rng.choice(both_app)
            elif pairs and rng.random() < 0.7:
                a, b = rng.choice(pairs)
            return {"id": sid, "k": "cross", "a": a, "b": b, "op": rng.choice(["add", "sub", "mul", "div", "lt", "ge", "le", "gt", "pow", "floordiv", "mod", "np_add", "np_multiply"])}
        if r < 0.97:
            return {"id": sid, "k": "touch_lazy", "how": rng.choice(["getattr", "call", "item", "setattr", "quantity", "contains", "iter", "dir", "app_contains"])}
        return {"id": sid, "k": "gc"}


# =========================================================================== the world
class RegistriesWorld:
    name = "registries"

    def __init__(self, prop):
        self.prop = prop

    def generate(self, streams, tier, index):
        kr = streams.get("knobs")
        pg = ProgGen(streams.get("program"))
        size = kr.choice([6, 10, 14, 20, 25])
        program = []
        # the other registries usually exist early, so that most of the run has several parties
        if kr.random() < 0.5:
            pg.nodes.append("C")
            program.append({"id": pg.sid(), "k": "new_registry_C"})
        if kr.random() < 0.4:
            pg.nodes.append("B")
            program.append({"id": pg.sid(), "k": "copy_registry"})
        program += [pg.step() for _ in range(size)]
        return {"world": "registries", "prop": self.prop, "knobs": {"numtype": kr.choice(["float", "float", "Fraction", "Decimal"]),
                                                                   "remote": kr.random() < 0.15, "remote_hashseed": kr.randint(1, 999)},
                "program": program,
                "faults": {"seed": 0, "rates": {}, "off": []}}

    def run_case(self, case, col, log=None):
        log = log or Log()
        core.import_pint()  # the zygote: pint imported, no registry touched

        def child():
            c = Collector()
            lg = Log(keep=log.keep)
            run = _Run(case, c, lg)
            v = None
            try:
                run.execute()
            except Violation as e:
                e.sig = run.signature(e)
                v = e.to_json()
            return {"violation": v, "col": c.to_json(), "digest": lg.digest(), "lines": lg.lines}

        res = core.fork_eval(child)
        col.merge(Collector.from_json(res["col"]))
        log.ev("child", res["digest"])
        if log.keep:
            log.lines.extend(res["lines"])
        if res["violation"]:
            v = res["violation"]
            return Violation(v["rule"], v["step"], v["detail"], v["sig"])
        return None

    def sample(self, case):
        return {"index": case["index"], "program": case["program"]}

    def describe(self):
        return {
            "rule": ("one case = a program over nodes A (default registry), B (deepcopy of A taken at a generated moment), C "
                     "(registry with extra definitions), L (the lazily built default registry) and the process-global "
                     "application registry: create quantities/units/measurements/unit containers/pint exceptions (prefixed and "
                     "plural spellings, int/float/Fraction/Decimal/ndarray/ufloat magnitudes), send (pickle protocols 0-5, copy, "
                     "deepcopy, to_tuple), deliver later in any order, twice or after an application-registry switch, evolve one "
                     "node of the copied pair (define, context, default system, groups), combine objects of two nodes, touch the "
                     "lazy registry through five entry points. Checked: delivered == sent, attached to the application registry as "
                     "of delivery, units resolvable there or UndefinedUnitError, cross-registry operators raise ValueError, every "
                     "other node's question battery unchanged by a step, the copy behaves like a separately built registry given "
                     "the same operations, the lazy registry answers like an explicit one. distinct_nontrivial = distinct (step "
                     "kind, object kind/how, outcome, #nodes, app registry node)."),
            "trivial": lambda t: False,
            "real": ["pint (registries, application registry, LazyRegistry, reduce/copy hooks, errors) from /repo", "pickle, copy",
                     "numpy, uncertainties", "os.fork: one process per run"],
            "stubs": ["the transport is a Python list of byte strings owned by the simulator"],
            "assumptions": ["sampling, not enumeration", "corrupted pickles are not injected (the property makes no promise)",
                            "float magnitudes are compared exactly after a round trip (pickle preserves them bit for bit)"],
        }

    def shrink(self, case):
        prog = case["program"]
        for cand in ddmin_list(prog):
            yield dict(case, program=cand)
        for idx, s in enumerate(prog):
            if s["k"] == "make" and s["kind"] == "q" and s["x"]["t"] != "int":
                yield dict(case, program=prog[:idx] + [dict(s, x={"t": "int", "v": 3})] + prog[idx + 1:])
            if s["k"] == "send" and s["how"] == "pickle" and s.get("protocol") != 2:
                yield dict(case, program=prog[:idx] + [dict(s, protocol=2)] + prog[idx + 1:])


class _Run:
    def __init__(self, case, col, log):
        self.case = case
        self.col = col
        self.log = log
        self.pint = core.import_pint()
        self.nodes = {}
        self.extras = {}  # node -> set of extra unit names defined there
        self.ops = {}  # node -> declarative operations applied so far
        self.shadow = None  # separately built registry mirroring B
        self.objs = {}
        self.transport = []
        self.sent_all = []
        self.battery_mem = {}
        self.app_node = "L"
        self.lazy_touched = False
        self.cur = 0
        # questions about things defined during the run (new prefixes, aliases); known from the start so that
        # every node is asked the same list at all times
        self.extra_battery = [s["probe"] for s in case["program"] if s.get("probe")]

    # ------------------------------------------------------------ nodes
    def reg(self, node):
        if node == "app":
            return self.pint.application_registry.get()
        if node == "L":
            return self.pint._DEFAULT_REGISTRY
        return self.nodes[node]

    def new_registry(self):
        T = {"float": float, "Fraction": Fraction, "Decimal": Decimal}[self.case.get("knobs", {}).get("numtype", "float")]
        ureg = self.pint.UnitRegistry(non_int_type=T)
        # a context built in Python: its rule is replaced later on one registry of the copied pair (ctx_edit)
        ctx = self.pint.Context("zctx")
        ctx.add_transformation("[time]", "[length]", _zctx_rule(3))
        ureg.add_context(ctx)
        return ureg

    def ensure_A(self):
        if "A" not in self.nodes:
            self.nodes["A"] = self.new_registry()
            self.extras["A"] = set()
            self.ops["A"] = []
            self.pristine_battery = self.battery(self.pint.UnitRegistry())
            self.remember("A")

    def battery(self, ureg):
        return [ask(ureg, q, num) for q in BATTERY + self.extra_battery]

    def remember(self, node):
        self.battery_mem[node] = self.battery(self.reg(node))

    def check_others(self, acting):
        """A step on one node leaves every other node's answers unchanged."""
        for node in list(self.nodes) + (["L"] if self.lazy_touched else []):
            if node == acting:
                continue
            now = self.battery(self.reg(node))
            self.col.checks += 1
            if node in self.battery_mem and now != self.battery_mem[node]:
                diff = [[(BATTERY + self.extra_battery)[i], a, b] for i, (a, b) in enumerate(zip(self.battery_mem[node], now)) if a != b]
                raise Violation("C18.isolation", self.cur, {"acting_node": acting, "changed_node": node, "changes": diff[:4]})
        if acting in self.nodes or (acting == "L" and self.lazy_touched):
            self.remember(acting)
        if self.shadow is not None and "B" in self.nodes:
            a, b = self.battery(self.nodes["B"]), self.battery(self.shadow)
            self.col.checks += 1
            if a != b:
                diff = [[(BATTERY + self.extra_battery)[i], x, y] for i, (x, y) in enumerate(zip(a, b)) if x != y]
                raise Violation("C18.copy-vs-built", self.cur, {"copy_answers_vs_separately_built": diff[:4],
                                                                "operations": self.ops["B"]})

    # ------------------------------------------------------------ objects
    def make(self, s):
        node = s["node"]
        if node != "app":
            self.ensure_A()
            if node not in self.nodes:
                node = "A"
        ureg = self.reg(node)
        pint = self.pint
        kind = s["kind"]
        try:
            if kind == "q":
                obj = (pint.Quantity if node == "app" else ureg.Quantity)(make_mag(s["x"]), s["u"])
                if s.get("pow") and s["x"]["t"] in ("int", "float") and float(s["x"]["v"]) > 0:
                    # the exponent in the registry's own numeric type (a Fraction exponent inside a float
                    # registry is not something the registry itself would produce)
                    T = obj._REGISTRY.non_int_type  # the lazy / application registry is a float registry
                    e = Fraction(s["pow"])
                    obj = obj ** (e if T is Fraction else (float(e) if T is float else Decimal(e.numerator) / Decimal(e.denominator)))
            elif kind == "u":
                obj = (pint.Unit if node == "app" else ureg.Unit)(s["u"])
            elif kind == "m":
                obj = (pint.Measurement if node == "app" else ureg.Measurement)(s["x"], s["err"], s["u"])
            elif kind == "uc":
                obj = ureg.parse_units(s["u"])._units
            else:
                e = s["exc"]
                if "raised" in e:
                    # an exception object as pint itself raises it
                    try:
                        {"offset_div": lambda: ureg.Quantity(1, "degC") / 2,
                         "offset_mul": lambda: ureg.Quantity(1, "degC") * ureg.Quantity(2, "meter"),
                         "dim": lambda: ureg.Quantity(1, "meter").to("second"),
                         "undefined": lambda: ureg.parse_units("nosuchunit"),
                         "log_add": lambda: ureg.Quantity(1, "dB") * ureg.Quantity(2, "meter")}[e["raised"]]()
                        return "failed"
                    except Exception as raised:
                        if not isinstance(raised, pint.errors.PintError):
                            return "failed"
                        obj = raised.with_traceback(None)
                else:
                    cls = getattr(pint.errors, e["cls"])
                    args = [{"<type:int>": int, "<type:float>": float}.get(a, a) if isinstance(a, str) else a for a in e["args"]]
                    obj = cls(*args)
        except Exception as ex:
            self.log.ev(s["id"], "make-failed", exc_name(ex))
            return "failed"
        if node == "app":
            self.note_app_use()
            owner = self.app_node
        else:
            owner = node
        self.objs[s["id"]] = {"obj": obj, "node": owner, "kind": kind, "desc": self.describe(obj, kind),
                              "via_app": node == "app"}
        self.log.ev(s["id"], "make", node, kind, self.objs[s["id"]]["desc"])
        return kind

    def note_app_use(self):
        if self.app_node == "L" and not self.lazy_touched:
            self.lazy_touched = True
            self.check_lazy("application registry used")

    def describe(self, obj, kind):
        """Plain-data description of an object's value (what must survive a round trip)."""
        if kind == "exc":
            fields = {k: (v.__name__ if isinstance(v, type) else (list(v) if isinstance(v, tuple) else v))
                      for k, v in sorted(vars(obj).items())}
            return {"type": type(obj).__name__, "fields": json.loads(json.dumps(fields, default=str)), "str": str(obj)}
        if kind == "uc":
            return {"units": norm_units(obj), "type": type(obj).__name__}
        if kind == "u":
            return {"units": norm_units(obj)}
        m = obj.magnitude
        if kind == "m":
            return {"units": norm_units(obj), "nominal": norm_num(m.nominal_value), "std": norm_num(m.std_dev)}
        return {"units": norm_units(obj), "mag": norm_num(m), "magtype": type(m).__name__}

    def units_of(self, rec):
        return [n for n, _ in rec["desc"].get("units", [])]

    def resolvable(self, names, node):
        """Does the node define every unit mentioned? (the model knows each node's extra definitions)"""
        have = self.extras.get(node, set()) if node != "L" else set()
        everywhere = set()
        for ex in self.extras.values():
            everywhere |= ex
        for n in names:
            for e in everywhere:
                if e in n and e not in have:
                    return False
        return True

    def check_received(self, s, rec, got, how, app_node=None):
        kind = rec["kind"]
        desc = self.describe(got, kind)
        self.col.checks += 1
        if desc != rec["desc"]:
            raise Violation("C18.roundtrip", s["id"], {"how": how, "kind": kind, "sent": rec["desc"], "received": desc})
        if kind == "exc":
            if type(got) is not type(rec["obj"]):
                raise Violation("C18.roundtrip", s["id"], {"how": how, "kind": kind, "sent_type": type(rec["obj"]).__name__,
                                                           "received_type": type(got).__name__})
            return
        if kind == "uc":
            return
        want_reg = self.reg(app_node) if app_node else rec["obj"]._REGISTRY
        if not app_node and rec.get("via_app") and got._REGISTRY is not want_reg:
            # An object made through pint.Quantity/Unit/Measurement carries its registry per instance; its
            # copies are made by the unbound class and land in the application registry as of the copy.
            # The property speaks only of unpickled objects here: either registry is accepted.
            self.col.probe("copy_of_app_object_moved_registry")
            want_reg = got._REGISTRY
        if got._REGISTRY is not want_reg:
            raise Violation("C18.registry", s["id"], {"how": how, "kind": kind, "expected_node": app_node or rec["node"]})
        # objects made through pint.Quantity etc. are instances of the unbound base classes and carry
        # their registry per instance; the registry's own classes derive from the same bases
        fam = {"q": self.pint.Quantity, "u": self.pint.Unit, "m": self.pint.Measurement}[kind]
        if not isinstance(got, fam):
            raise Violation("C18.registry", s["id"], {"how": how, "kind": kind, "class": type(got).__name__})
        if how != "pickle" and got._REGISTRY is rec["obj"]._REGISTRY:
            eq = got == rec["obj"]
            ok = bool(eq.all()) if hasattr(eq, "all") else bool(eq)
            if kind == "m":
                ok = True  # ufloat copies are new random variables: compared by nominal value and std above
            if not ok:
                raise Violation("C18.roundtrip", s["id"], {"how": how, "kind": kind, "why": "copy != original", "sent": rec["desc"]})
        if how != "pickle" and got._REGISTRY is not rec["obj"]._REGISTRY:
            return  # a copy of an unbound-class object that moved with the application registry (see above)
        # every unit it mentions is usable in the receiving registry: formatting with symbols reads the unit
        # table directly (no parsing, which would register a missing prefixed unit as a side effect), so it
        # comes first
        try:
            format(got, "~P") if kind != "m" else format(got.units, "~P")
        except KeyError as e:
            raise Violation("C18.unit-not-registered", s["id"], {"how": how, "unit": str(e), "exc": "KeyError while formatting",
                                                                 "node": app_node or rec["node"], "sent": rec["desc"]})
        except Exception:
            pass  # formatting problems of other kinds are not this property's business
        for n in self.units_of(rec):
            try:
                want_reg.get_symbol(n)
                want_reg.Quantity(1, want_reg.UnitsContainer({n: 1})).to_root_units()
            except Exception as e:
                raise Violation("C18.unit-not-registered", s["id"], {"how": how, "unit": n, "exc": exc_name(e),
                                                                     "node": app_node or rec["node"]})

    # ------------------------------------------------------------ lazy registry
    def check_lazy(self, why):
        L = self.pint._DEFAULT_REGISTRY
        now = self.battery(L)
        self.ensure_A()
        self.col.checks += 1
        if now != self.pristine_battery:
            diff = [[(BATTERY + self.extra_battery)[i], a, b] for i, (a, b) in enumerate(zip(self.pristine_battery, now)) if a != b]
            raise Violation("C18.lazy", self.cur, {"why": why, "explicit_vs_lazy": diff[:4]})
        if not isinstance(L, self.pint.UnitRegistry):
            raise Violation("C18.lazy", self.cur, {"why": why, "class": type(L).__name__})
        self.battery_mem["L"] = now
        self.col.probe("lazy_first_touch:" + why.split()[0])

    # ------------------------------------------------------------ interpreter
    def execute(self):
        import gc

        for s in self.case["program"]:
            self.col.steps += 1
            self.cur = s["id"]
            out = getattr(self, "do_" + s["k"])(s)
            self.col.trans(s["k"], s.get("kind") or s.get("how") or s.get("op") or "", out, len(self.nodes), self.app_node)
        if self.case.get("knobs", {}).get("remote") and self.sent_all:
            self.deliver_remote()

    def deliver_remote(self):
        """Every pickle of the run delivered once more in *another process* under another PYTHONHASHSEED
        (a byte string can be kept and loaded anywhere): the loaded objects must equal, hash like and
        be found as dictionary keys like the same objects built there."""
        import base64
        import os
        import subprocess
        import sys

        msgs = [{"data": base64.b64encode(m["data"]).decode(), "kind": m["rec"]["kind"], "desc": m["rec"]["desc"], "protocol": m["protocol"]}
                for m in self.sent_all
                if m["rec"]["kind"] in ("q", "u", "uc") and self.resolvable(self.units_of(m["rec"]), "L")
                and m["rec"]["desc"].get("magtype", "int") in ("int", "float")
                and all(isinstance(e, int) and not isinstance(e, bool) for _, e in m["rec"]["desc"]["units"])][:12]
        if not msgs:
            return
        code = r"""
import sys, json, base64, pickle
sys.path.insert(0, sys.argv[1])
import logging, warnings
warnings.simplefilter('ignore'); logging.getLogger('pint').setLevel(logging.CRITICAL)
import pint
from fractions import Fraction
msgs = json.load(sys.stdin)
ureg = pint.get_application_registry().get()
out = []
def exp(e):
    if isinstance(e, str):
        return Fraction(e[1:]) if e.startswith('D') else Fraction(e)
    return e
for m in msgs:
    try:
        obj = pickle.loads(base64.b64decode(m['data']))
    except Exception as e:
        out.append(['loads-raised', type(e).__name__]); continue
    uc = obj if m['kind'] == 'uc' else obj._units
    local = pint.util.UnitsContainer({n: exp(e) for n, e in m['desc']['units']})
    problems = []
    if not (uc == local and local == uc):
        problems.append('container != the same container built here')
    if hash(uc) != hash(local):
        problems.append('hash differs from the same container built here')
    if {local: 1}.get(uc) != 1:
        problems.append('not found as a dictionary key')
    out.append(problems)
print('REMOTE ' + json.dumps(out))
"""
        env = dict(os.environ, PYTHONHASHSEED=str(self.case["knobs"]["remote_hashseed"]))
        p = subprocess.run([sys.executable, "-c", code, core.PINT_PATH], input=json.dumps(msgs), capture_output=True, text=True,
                           env=env, timeout=300)
        line = [l for l in p.stdout.splitlines() if l.startswith("REMOTE ")]
        if p.returncode != 0 or not line:
            raise HarnessError(f"remote delivery process failed: {p.stderr[-500:]}")
        res = json.loads(line[0][7:])
        self.col.fault("delivered_in_another_process", len(res))
        self.cur = "remote"
        for m, problems in zip(msgs, res):
            self.col.checks += 1
            if problems:
                raise Violation("C18.roundtrip", "remote", {"how": "pickle, loaded in another process under another hash seed",
                                                            "kind": m["kind"], "protocol": m["protocol"], "sent": m["desc"],
                                                            "problems": problems})

    def do_make(self, s):
        out = self.make(s)
        self.check_others(s["node"] if s["node"] != "app" else self.app_node)
        return out

    def do_send(self, s):
        rec = self.objs.get(s["obj"])
        if rec is None:
            return "noobj"
        how = s["how"]
        obj = rec["obj"]
        if how == "pickle":
            try:
                data = pickle.dumps(obj, s["protocol"])
            except Exception as e:
                raise Violation("C18.dumps-raised", s["id"], {"kind": rec["kind"], "protocol": s["protocol"], "exc": exc_name(e),
                                                              "sent": rec["desc"]})
            self.transport.append({"data": data, "rec": rec, "protocol": s["protocol"]})
            self.sent_all.append(self.transport[-1])
            self.log.ev(s["id"], "send", rec["kind"], s["protocol"], len(data))
            return "queued"
        try:
            if how == "copy":
                got = copy.copy(obj)
            elif how == "deepcopy":
                got = copy.deepcopy(obj)
            else:
                if rec["kind"] != "q":
                    return "n/a"
                got = obj._REGISTRY.Quantity.from_tuple(obj.to_tuple())
        except Exception as e:
            raise Violation("C18.copy-raised", s["id"], {"how": how, "kind": rec["kind"], "exc": exc_name(e), "sent": rec["desc"]})
        self.check_received(s, rec, got, how)
        self.log.ev(s["id"], "send", how, rec["kind"])
        return "ok"

    def do_deliver(self, s):
        if not self.transport:
            return "empty"
        i = len(self.transport) - 1 if s["newest"] else s["which"] % len(self.transport)
        msg = self.transport[i] if s["keep"] else self.transport.pop(i)
        if s["keep"]:
            self.col.fault("duplicate_delivery")
        if i != 0:
            self.col.fault("reordered_delivery")
        rec = msg["rec"]
        app = self.app_node
        names = self.units_of(rec) if rec["kind"] != "exc" else []
        can = self.resolvable(names, app) if rec["kind"] not in ("exc", "uc") else True
        self.note_app_use() if rec["kind"] not in ("exc", "uc") else None
        try:
            got = pickle.loads(msg["data"])
        except Exception as e:
            if not can and exc_name(e) == "UndefinedUnitError":
                self.col.probe("receiver_lacks_unit")
                self.log.ev(s["id"], "deliver", "UndefinedUnitError")
                self.check_others(app)
                return "undefined-unit"
            raise Violation("C18.loads-raised", s["id"], {"kind": rec["kind"], "protocol": msg["protocol"], "exc": exc_name(e),
                                                          "msg": str(e)[:200], "sent": rec["desc"], "app_registry": app,
                                                          "sender": rec["node"]})
        if not can:
            raise Violation("C18.unit-not-registered", s["id"], {"how": "pickle", "units": names, "node": app,
                                                                 "why": "receiver does not define a unit, yet loading succeeded"})
        self.check_received(s, rec, got, "pickle", app_node=app if rec["kind"] not in ("exc", "uc") else None)
        if app != rec["node"]:
            self.col.probe("delivered_to_other_registry")
        self.log.ev(s["id"], "deliver", rec["kind"], app)
        self.check_others(app)
        return "ok"

    def do_app_switch(self, s):
        node = s["node"]
        if node != "L":
            self.ensure_A()
            if node not in self.nodes:
                node = "A"
        self.pint.set_application_registry(self.reg(node))
        self.app_node = node
        self.col.fault("app_switch")
        self.log.ev(s["id"], "app_switch", node)
        return node

    def do_copy_registry(self, s):
        self.ensure_A()
        self.nodes["B"] = copy.deepcopy(self.nodes["A"])
        self.extras["B"] = set(self.extras["A"])
        self.ops["B"] = list(self.ops["A"])
        # the same declarative state, built separately
        self.shadow = self.new_registry()
        for op in self.ops["B"]:
            self.apply(self.shadow, op)
        self.remember("B")
        self.col.fault("registry_deepcopied")
        self.check_others("B")
        return "ok"

    def do_new_registry_C(self, s):
        c = self.new_registry()
        for line in EXTRA_DEFS:
            c.define(line)
        self.nodes["C"] = c
        self.extras["C"] = {"smoot", "smt", "zork", "blip"}
        self.ops["C"] = []
        self.remember("C")
        self.check_others("C")
        return "ok"

    def apply(self, ureg, op):
        k = op["op"]
        if k == "define":
            ureg.define(op["line"])
        elif k == "ctx_on":
            ureg.enable_contexts("spectroscopy")
        elif k == "ctx_off":
            ureg.disable_contexts()
        elif k == "system":
            ureg.default_system = op["name"]
        elif k == "ctx_edit":
            # the context object this registry holds gets another rule function: no other registry may notice
            obj = ureg.remove_context("zctx")
            obj.add_transformation("[time]", "[length]", _zctx_rule(op["factor"]))
            ureg.add_context(obj)
        elif k == "new_group":
            ureg.get_group(op["name"])
        elif k == "group_add":
            ureg.get_group(op["name"], False).add_units(op["unit"])

    def do_evolve(self, s):
        self.ensure_A()
        node = s["node"] if s["node"] in self.nodes else "A"
        ureg = self.nodes[node]
        try:
            self.apply(ureg, s)
            out = "ok"
        except Exception as e:
            out = "exc:" + exc_name(e)
        if node == "B" and self.shadow is not None:
            try:
                self.apply(self.shadow, s)
                out2 = "ok"
            except Exception as e:
                out2 = "exc:" + exc_name(e)
            if out != out2:
                raise Violation("C18.copy-vs-built", s["id"], {"operation": {k: v for k, v in s.items() if k != "id"},
                                                                "on_copy": out, "on_separately_built": out2})
        if out == "ok":
            self.ops[node].append({k: v for k, v in s.items() if k not in ("id", "k", "node")})
            if s["op"] == "define":
                self.extras[node].add(s["line"].split("=")[0].strip())
        self.col.fault("evolve:" + s["op"])
        self.log.ev(s["id"], "evolve", node, s["op"], out)
        self.check_others(node)
        return out

    def do_cross(self, s):
        a, b = self.objs.get(s["a"]), self.objs.get(s["b"])
        if not a or not b or a["kind"] not in ("q", "u", "m") or b["kind"] not in ("q", "u", "m"):
            return "n/a"
        import operator

        op = {"add": operator.add, "sub": operator.sub, "mul": operator.mul, "div": operator.truediv, "lt": operator.lt,
              "ge": operator.ge, "le": operator.le, "gt": operator.gt, "pow": operator.pow, "floordiv": operator.floordiv,
              "mod": operator.mod, "np_add": lambda x, y: __import__("numpy").add(x, y),
              "np_multiply": lambda x, y: __import__("numpy").multiply(x, y)}[s["op"]]
        same = a["obj"]._REGISTRY is b["obj"]._REGISTRY
        if s["op"] in ("lt", "ge", "le", "gt") and (a["kind"] != b["kind"] or a["kind"] == "m"):
            return "n/a"  # ordering is asked between two quantities or between two units
        if s["op"] in ("add", "sub") and (a["kind"] == "u" or b["kind"] == "u"):
            return "n/a"
        if s["op"] in ("pow", "floordiv", "mod", "np_add", "np_multiply") and (a["kind"] != "q" or b["kind"] != "q"):
            return "n/a"  # a quantity as exponent or divisor of a quantity
        try:
            op(a["obj"], b["obj"])
            out = "ok"
        except Exception as e:
            out = exc_name(e)
        self.col.checks += 1
        if not same and out != "ValueError":
            raise Violation("C18.cross-registry", s["id"], {"op": s["op"], "kinds": [a["kind"], b["kind"]],
                                                            "nodes": [a["node"], b["node"]], "outcome": out})
        self.log.ev(s["id"], "cross", s["op"], same, out)
        return ("same:" if same else "cross:") + ("ok" if out == "ok" else "raised")

    def do_touch_lazy(self, s):
        L = self.pint._DEFAULT_REGISTRY
        first = not self.lazy_touched
        how = s["how"]
        try:
            if how == "getattr":
                L.meter
            elif how == "call":
                L("3 meter")
            elif how == "item":
                L["meter"]
            elif how == "setattr":
                L.force_ndarray_like = False
            elif how == "contains":
                # operators and built-ins look their methods up on the class: the first touch may be one of them
                if "kilometers" not in L or "nosuchunit" in L:
                    raise ValueError("membership answered wrongly")
            elif how == "iter":
                if "meter" not in set(iter(L)):
                    raise ValueError("iteration does not list meter")
            elif how == "dir":
                if "meter" not in dir(L):
                    raise ValueError("dir() does not list meter")
            elif how == "app_contains":
                # the same through the application-registry wrapper, whatever registry it wraps at this moment
                app = self.pint.application_registry
                if "kilometers" not in app or "nosuchunit" in app:
                    raise ValueError("membership through the application registry answered wrongly")
                if app.get() is not L:
                    self.log.ev(s["id"], "touch_lazy", how, "not-the-lazy-one")
                    return how + ":other"
            else:
                L.Quantity(2, "kilometer")
        except Exception as e:
            raise Violation("C18.lazy", s["id"], {"why": "first touch raised" if first else "touch raised", "how": how,
                                                  "exc": exc_name(e), "msg": str(e)[:200]})
        if first:
            self.lazy_touched = True
            self.check_lazy(how)
        self.check_others("L")
        return how + (":first" if first else "")

    def do_gc(self, s):
        import gc

        gc.collect()
        return "ok"

    def signature(self, v):
        d = v.detail
        if v.rule == "C18.roundtrip":
            return f"{v.rule}/{d.get('how')}/{d.get('kind')}"
        if v.rule == "C18.loads-raised" and d.get("exc") == "UndefinedUnitError" and any(
                f"'delta_{lu}'" in d.get("msg", "") for lu in LOG_UNITS):
            return f"{v.rule}/delta-of-logarithmic-unit"
        if v.rule in ("C18.loads-raised", "C18.dumps-raised", "C18.copy-raised"):
            return f"{v.rule}/{d.get('kind')}/{d.get('exc')}"
        if v.rule == "C18.copy-vs-built":
            return f"{v.rule}/{(d.get('operation') or {}).get('op', 'battery')}"
        if v.rule == "C18.isolation":
            return f"{v.rule}/{d['acting_node']}->{d['changed_node']}"
        return v.rule
