"""World ``history`` (C13): caches are transparent.

One to three live registries (clients) in one process take interleaved steps: read-only
questions and state changes (definitions added at run time, contexts enabled/disabled,
default system switched), with forced memo misses, lru evictions, gc and further
registries created in between. Every answer is compared with the answer of a *pristine*
registry built from the same definitions and brought to the same declarative state, which
is asked only that one question.
"""

from __future__ import annotations

import copy
import functools
import gc
import json
from fractions import Fraction

from .. import core
from ..core import Collector, FaultPlan, HarnessError, Log, Sentinel, Violation, ddmin_list
from ..gen import (DEC_FACTORS, RefTable, gen_general, mono_mul, mono_str, render_all, render_plain,
                   render_simple_context, vec_key)
from ..questions import FORMAT_SPECS, ask

from decimal import Decimal
import os

# floats of the history-laden and of the pristine registry are compared bit for bit: both walk the same
# definitions in the same order, so a memo that is filled along another numerical path shows up
REL = float(os.environ.get("VERIF_C13_REL", "0"))

NUMTYPES = {"float": float, "Fraction": Fraction, "Decimal": Decimal}

DEFAULT_UNITS = ["meter", "m", "km", "kilometer", "inch", "foot", "mile", "second", "s", "ms", "hour", "gram", "kg",
                 "kilogram", "pound", "newton", "N", "joule", "J", "eV", "watt", "hertz", "Hz", "kelvin", "degC",
                 "degF", "liter", "gallon", "nm", "angstrom", "c", "speed_of_light", "planck_constant", "ampere",
                 "volt", "mV", "ohm", "mole", "bar", "pascal", "psi", "radian", "degree", "byte", "bit", "percent",
                 "microsecond", "us", "mph", "knot", "acre", "hectare", "cm", "centimeter", "dyne", "erg", "gauss",
                 "tesla", "coulomb", "farad", "rpm", "calorie", "kcal", "btu", "atm", "torr", "light_year", "parsec",
                 "au", "week", "year", "fortnight", "ounce", "stone", "ton", "carat", "grain"]
DEFAULT_DEFINES = ["smoot = 1.7018 * meter", "beard_second = 5 * nanometer = bsec", "jiffy_x = 0.01 * second",
                   "@alias meter = metro_x", "zorg- = 1e4 = zo-", "wibble = 3 * newton * meter",
                   "dogyear = 52 * day", "bananadose = 0.1 * microsievert", "kilozot = 5 * meter"]


# =========================================================================== clients
def gen_client(rng, kind):
    if kind == "default":
        return {"kind": "default", "numtype": rng.choice(["float", "float", "Fraction"]),
                "case_sensitive": rng.random() < 0.8}
    spec = gen_general(rng)
    _enrich_contexts(rng, spec)
    return {"kind": "gen", "spec": spec, "numtype": rng.choice(["float", "Fraction", "Fraction", "Decimal"]),
            "case_sensitive": rng.random() < 0.8}


def _enrich_contexts(rng, spec):
    """Rules keyed by a *derived* dimension ([s0] -> [d1]: pint rewrites such keys in base dimensions, for a
    context from a file when it is loaded, for a context built in Python at its first activation), and contexts
    built in Python (Context.from_lines without the registry, then add_context)."""
    table = RefTable(spec)
    bod = table.base_unit_of_dim()
    for ctx in spec["contexts"]:
        for dd in spec.get("ddims", ()):
            if rng.random() < 0.5:
                b = rng.choice(spec["dims"])
                m = {bod[b]: 1}
                for d, e in dd["ref"].items():
                    m = mono_mul(m, {bod[d]: -e})
                par = ["n1", rng.choice([1, -1])] if rng.random() < 0.6 else None
                ctx["rules"].append({"src": {dd["name"]: 1}, "dst": {b: 1}, "bidir": rng.random() < 0.5, "kind": "lin",
                                     "K": rng.choice(DEC_FACTORS), "par": par, "M": m})
                if par:
                    ctx["defaults"].setdefault("n1", rng.choice(["2", "3", "0.5"]))
        if not ctx["redefs"] and rng.random() < 0.5:
            ctx["py"] = True


def _rule_pairs(spec, table, by_dim):
    """(unit of the source dimension, unit of the destination dimension) per context rule."""
    out = []
    for ctx in spec["contexts"]:
        for r in ctx["rules"]:
            ends = []
            for side in ("src", "dst"):
                d = {}
                for k, e in r[side].items():
                    d = mono_mul(d, table.ddims.get(k, {k: 1}), e)
                ends.append(by_dim.get(vec_key(d), []))
            if ends[0] and ends[1]:
                out.append((ends[0], ends[1], r["bidir"], ctx["name"], bool(r.get("par"))))
    return out


class ClientInfo:
    """What the generator and the interpreter need to know about one client's definitions."""

    def __init__(self, client):
        self.client = client
        if client["kind"] == "gen":
            spec = client["spec"]
            self.lines = render_plain(spec)
            self.py_contexts = []
            for c in spec["contexts"]:
                if c.get("py"):
                    self.py_contexts.append(render_simple_context(c))
                else:
                    self.lines.extend(render_simple_context(c))
            self.table = RefTable(spec)
            self.units = list(self.table.order)
            self.spellings = sorted(self.table.spellings())
            self.prefix_sp = sorted(self.table.prefix_spellings())
            self.contexts = [(c["name"], bool(c["redefs"]), bool(c["defaults"])) for c in spec["contexts"]]
            self.ctx_names = {c["name"]: [c["name"]] + c["aliases"] for c in spec["contexts"]}
            self.systems = [s["name"] for s in spec["systems"]]
            self.groups = [g["name"] for g in spec["groups"]] + ["root"]
            self.default_group = (spec.get("defaults") or {}).get("group")
            self.by_dim = {}
            for n in self.units:
                try:
                    _, d = self.table.root_of_unit(n)
                except Exception:
                    continue
                self.by_dim.setdefault(vec_key(d), []).append(n)
            self.rule_pairs = _rule_pairs(spec, self.table, self.by_dim)
        else:
            self.lines = None
            self.table = None
            self.units = DEFAULT_UNITS
            self.spellings = DEFAULT_UNITS
            self.prefix_sp = ["kilo", "k", "milli", "m", "micro", "u", "mega", "M", "nano", "n", "c", "centi"]
            self.contexts = [("sp", False, True), ("spectroscopy", False, True), ("boltzmann", False, False),
                             ("energy", False, False), ("Gau", True, False), ("chemistry", False, True),
                             ("textile", False, False)]
            self.ctx_names = {c[0]: [c[0]] for c in self.contexts}
            self.systems = ["SI", "mks", "cgs", "imperial", "US", "atomic", "Planck"]
            self.groups = ["root", "international", "imperial", "USCSLengthInternational", "Avoirdupois"]
            self.default_group = "international"
            self.by_dim = None
            self.rule_pairs = []
            self.py_contexts = []

    def redefining(self, ctxname):
        for n, red, _ in self.contexts:
            if n == ctxname:
                return red
        return False


# =========================================================================== generation
class ProgGen:
    def __init__(self, rng, clients):
        self.rng = rng
        self.infos = [ClientInfo(c) for c in clients]
        self.nid = 0
        self.ndef = [0] * len(clients)
        self.pools = [[] for _ in clients]
        self.nlong = [0] * len(clients)

    def sid(self):
        self.nid += 1
        return self.nid

    def unit_str(self, ci, compound=True):
        rng = self.rng
        info = self.infos[ci]
        def one():
            s = rng.choice(info.spellings)
            if rng.random() < 0.25:
                s = rng.choice(info.prefix_sp) + s
            if rng.random() < 0.05:
                s += "s"
            if self.ndef[ci] and rng.random() < 0.1:
                s = f"x{rng.randint(1, self.ndef[ci])}"
            return s
        if not compound or rng.random() < 0.6:
            return one()
        m = {}
        for _ in range(rng.randint(2, 3)):
            m = mono_mul(m, {one(): rng.choice([1, 1, -1, 2])})
        return mono_str(m) if m else one()

    def same_dim_pair(self, ci):
        rng = self.rng
        info = self.infos[ci]
        if info.by_dim:
            k = rng.choice(sorted(info.by_dim))
            lst = info.by_dim[k]
            a, b = rng.choice(lst), rng.choice(lst)
            pf = lambda s: (rng.choice(info.prefix_sp) + s) if rng.random() < 0.3 else s
            return pf(a), pf(b)
        pairs = [("meter", "inch"), ("km", "mile"), ("second", "hour"), ("joule", "eV"), ("kg", "pound"),
                 ("newton", "dyne"), ("liter", "gallon"), ("degC", "kelvin"), ("degF", "degC"), ("bar", "psi"),
                 ("mph", "knot"), ("watt", "erg/s"), ("hertz", "rpm"), ("nm", "angstrom"), ("tesla", "gauss"),
                 ("acre", "hectare"), ("m/s", "km/hour"), ("kg*m/s**2", "newton"), ("nm", "hertz"), ("eV", "nm"),
                 ("kelvin", "eV"), ("gram", "mole")]
        return rng.choice(pairs)

    def question(self, ci):
        rng = self.rng
        info = self.infos[ci]
        r = rng.random()
        x = rng.choice(["1", "2", "3", "0.5", "12", "7", "1000", "0.001"])
        if r < 0.25:
            a, b = self.same_dim_pair(ci) if rng.random() < 0.8 else (self.unit_str(ci), self.unit_str(ci))
            if info.rule_pairs and rng.random() < 0.35:
                # across dimensions along a rule of one of the contexts (answerable while it is active)
                srcs, dsts, bidir = rng.choice(info.rule_pairs)[:3]
                a, b = rng.choice(srcs), rng.choice(dsts)
                if bidir and rng.random() < 0.4:
                    a, b = b, a
            q = [rng.choice(["conv", "conv", "convert"]), x, a, b]
            self.pools[ci].append([q[0], x, b, a])
            return q
        if r < 0.35:
            kw = {}
            if rng.random() < 0.2:
                kw["case_sensitive"] = rng.random() < 0.5
            if rng.random() < 0.15:
                kw["as_delta"] = rng.random() < 0.5
            s = self.unit_str(ci)
            if kw.get("case_sensitive") is False and rng.random() < 0.7:
                s = s.upper() if rng.random() < 0.5 else s.lower()
                prefixed = [q2[1] for q2 in self.pools[ci] if q2[0] in ("parse_units", "root", "base", "dim", "name")
                            and isinstance(q2[1], str) and any(q2[1].startswith(pn) for pn in ("kilo", "milli", "hecto"))]
                if prefixed and rng.random() < 0.5:
                    # a prefixed unit used earlier, now spelled in another case
                    s = rng.choice(prefixed)
                    s = rng.choice([s.upper(), s.title(), s.swapcase()])
            return ["parse_units", s, kw]
        if r < 0.41:
            forms = [f"{x} * {self.unit_str(ci)}", f"{x} {self.unit_str(ci, False)} + 2 {self.unit_str(ci, False)}",
                     f"{self.unit_str(ci)} / {x}", f"3 * ({self.unit_str(ci, False)}", f"{x} ** 2 * {self.unit_str(ci)}"]
            return ["parse_expr", rng.choice(forms)]
        if r < 0.49:
            if rng.random() < 0.3:
                # equal units written in two orders share one memo entry: the second answer is the fresh one too
                m = {}
                for _ in range(3):
                    m = mono_mul(m, {self.unit_str(ci, False): rng.choice([1, 1, -1, 2])})
                if len(m) > 1:
                    kind = rng.choice(["root", "base", "tobase"])
                    rev = mono_str(dict(reversed(list(m.items()))))
                    self.pending_q = [kind, rev] if kind != "tobase" else [kind, x, rev]
                    return [kind, mono_str(m)] if kind != "tobase" else [kind, x, mono_str(m)]
            return ["root", self.unit_str(ci)]
        if r < 0.57:
            return ["base", self.unit_str(ci)]
        if r < 0.60 and info.systems:
            u = self.unit_str(ci)
            # the same unit is asked about under the default system right afterwards
            self.pools[ci].append(["base", u])
            self.pools[ci].append(["tobase", x, u])
            self.pending_q = ["base", u]
            if rng.random() < 0.12:
                # a name no system has: the question fails, and must fail again (and for every other entry point) later
                self.pending_q = rng.choice([["compat_g", u, "nosuchsys"], ["sysmembers", "nosuchsys"], ["sysdir_all"]])
                self.pools[ci].append(["compat_g", u, "nosuchsys"])
                return ["base_sys", u, "nosuchsys"]
            return ["base_sys", u, rng.choice(info.systems)]
        if r < 0.64:
            return ["dim", self.unit_str(ci)]
        if r < 0.71:
            return ["compat", self.unit_str(ci, False)]
        if r < 0.74:
            g = rng.choice(info.groups + info.systems + (["nosuchsys", "nosuchgroup"] if rng.random() < 0.2 else []))
            if rng.random() < 0.35:
                # membership itself (a context that redefines a unit must not move it between groups)
                return ["members", g] if g in info.groups else ["sysmembers", g]
            return ["compat_g", self.unit_str(ci, False), g]
        if r < 0.77:
            a, b = self.same_dim_pair(ci)
            return ["compat_q", a, b if rng.random() < 0.7 else self.unit_str(ci)]
        if r < 0.81:
            return [rng.choice(["name", "symbol", "contains", "getattr"]), self.unit_str(ci, False)]
        if r < 0.855:
            # parse_pattern goes through the process-wide pattern_to_regex memo
            a, b = self.unit_str(ci, False), self.unit_str(ci, False)
            return ["pattern", "3.5 and 2", "{%s} and {%s}" % (a, b)]
        if r < 0.87:
            return ["fmt_q", x, self.unit_str(ci), rng.choice(FORMAT_SPECS)]
        if r < 0.90:
            return ["fmt_u", self.unit_str(ci), rng.choice(FORMAT_SPECS)]
        if r < 0.93:
            return ["compact", x, self.unit_str(ci, False)]
        if r < 0.97:
            return [rng.choice(["tobase", "toroot"]), x, self.unit_str(ci)]
        return ["toreduced", x, self.unit_str(ci)]

    def define_line(self, ci):
        rng = self.rng
        info = self.infos[ci]
        if info.client["kind"] == "default":
            k = self.ndef[ci]
            if k >= len(DEFAULT_DEFINES):
                return None
            self.ndef[ci] += 1
            return DEFAULT_DEFINES[k]
        self.ndef[ci] += 1
        n = self.ndef[ci]
        r = rng.random()
        base = rng.choice(info.units)
        if "offset" in info.table.units.get(base, {}):
            base = info.units[0]
        self.used_names = getattr(self, "used_names", set())
        if not info.client["case_sensitive"] and rng.random() < 0.5:
            # a new unit that differs from an existing one in letter case only: where case is ignored, every
            # spelling of the old one in another case may now mean the new one
            twin = rng.choice([base.upper(), base.title()])
            if twin not in info.table.spellings() and (ci, twin) not in self.used_names:
                self.used_names.add((ci, twin))
                self.twins = getattr(self, "twins", {})
                self.twins[ci] = twin
                return f"{twin} = {rng.choice(DEC_FACTORS)} * {info.units[0]}"
        if r < 0.6:
            line = f"x{n} = {rng.choice(DEC_FACTORS)} * {base}"
            if rng.random() < 0.3:
                line += f" = X{n}"
            return line
        if r < 0.75:
            return f"@alias {base} = x{n}"
        if r < 0.85:
            return f"zot{n}- = 1e{rng.choice([2, 4, -2])} = Z{n}-"
        # a new unit whose name looks like prefix symbol + existing unit (a string that used to be
        # read as prefix + unit). Prefix *name* + unit *name* is not generated: that is the canonical
        # name of an implicitly defined unit, i.e. a redefinition (known finding R10, replayed separately).
        self.used_names = getattr(self, "used_names", set())
        # symbol + unit, or prefix name + unit name: the latter is the canonical name of the implicitly
        # registered prefixed unit (finding R10, repaired)
        name = f"{rng.choice(['K', 'M', 'kilo', 'milli'])}{base}"
        if (ci, name) in self.used_names:
            return f"x{n} = {rng.choice(DEC_FACTORS)} * {base}"  # never the same name twice: that would be a redefinition
        self.used_names.add((ci, name))
        return f"{name} = {rng.choice(DEC_FACTORS)} * {info.units[0]}"

    def step(self, ci):
        rng = self.rng
        info = self.infos[ci]
        if getattr(self, "pending", None):
            # the question that looks at an object right after it was changed in place
            st = self.pending.pop(0)
            st["id"] = self.sid()
            return st
        r = rng.random()
        sid = self.sid()
        if r < 0.56:
            pool = self.pools[ci]
            if pool and rng.random() < 0.55:
                q = rng.choice(pool)
            else:
                q = self.question(ci)
                pool.append(q)
                if (not getattr(self, "pending_q", None) and len(q) > 1 and isinstance(q[-1 if q[0] in ("root", "base", "dim", "name") else 1], str)
                        and rng.random() < 0.3):
                    u0 = q[-1] if q[0] in ("root", "base", "dim", "name") else q[1]
                    if any(u0.startswith(pn) for pn in ("kilo", "milli", "hecto")) and " " not in u0:
                        # the prefixed unit has just been used: the same name in another letter case, case-insensitively
                        self.pending_q = ["parse_units", rng.choice([u0.upper(), u0.title(), u0.swapcase()]), {"case_sensitive": False}]
                if getattr(self, "pending_q", None):
                    self.pending = [{"c": ci, "k": "ask", "q": self.pending_q}]
                    self.pending_q = None
            return {"id": sid, "c": ci, "k": "ask", "q": q}
        if r < 0.64:
            line = self.define_line(ci)
            if line:
                name = line.split("=")[0].strip()
                if not line.startswith("@") and not name.endswith("-") and rng.random() < 0.6:
                    # the spelling is asked about before it is defined (it may already mean something,
                    # e.g. prefix + unit, or nothing) and again afterwards
                    before = rng.choice([["parse_units", name, {}], ["compat", name], ["dim", name], ["root", name],
                                         ["base", name], ["base", name + "s"], ["root", "K" + name],
                                         ["conv", "2", name, info.units[0]]])
                    if not info.client["case_sensitive"] and rng.random() < 0.6:
                        odd = rng.choice([name.upper(), name.swapcase(), name.lower()])
                        before = rng.choice([["dim", "kilo" + odd], ["root", "milli" + odd], ["dim", odd], ["base", "K" + odd],
                                             ["tobase", "2", "kilo" + odd]])
                    after = rng.choice([["conv", "2", name, info.units[0]], ["root", name], ["parse_units", name, {}],
                                        ["base", name], before, before])
                    if before[0] in ("dim", "root", "base", "tobase") and before[-1] != name and rng.random() < 0.7:
                        after = before
                    self.pools[ci].append(after)
                    self.pending = [{"c": ci, "k": "define", "line": line}, {"c": ci, "k": "ask", "q": after}]
                    return {"id": sid, "c": ci, "k": "ask", "q": before}
                return {"id": sid, "c": ci, "k": "define", "line": line}
            return {"id": sid, "c": ci, "k": "gc"}
        if r < 0.72 and info.rule_pairs and rng.random() < 0.4 and not getattr(self, "pending", None):
            # one context, one question along one of its rules, two activations that differ in how the context is
            # named and in whether the call carries a parameter: the second answer is that of a fresh registry
            srcs, dsts, bidir, name, has_par = rng.choice(info.rule_pairs)
            q = [rng.choice(["conv", "convert", "compat_q"]), "2", rng.choice(srcs), rng.choice(dsts)]
            if q[0] == "compat_q":
                q = ["compat_q", q[2], q[3]]
            kws = [{"n1": rng.choice(["2", "3", "1.5"])} if has_par and rng.random() < 0.7 else {}, {}]
            rng.shuffle(kws)
            seq = []
            for kw in kws:
                seq += [{"c": ci, "k": "enable", "ctx": rng.choice(info.ctx_names[name]), "base": name, "kw": kw},
                        {"c": ci, "k": "ask", "q": q}]
                if rng.random() < 0.5:
                    seq.append({"c": ci, "k": "ask", "q": ["compat", q[-2]]})
                seq.append({"c": ci, "k": "disable", "n": 1})
            first = seq.pop(0)
            first["id"] = sid
            self.pending = seq
            return first
        if r < 0.72 and info.contexts:
            name, red, has_par = rng.choice(info.contexts)
            kw = {}
            if has_par and rng.random() < 0.5:
                kw = {"n1" if info.client["kind"] == "gen" else "n": rng.choice(["2", "3", "1.5"])}
            if red and rng.random() < 0.5 and not getattr(self, "pending", None):
                # a context that redefines units is entered and left: afterwards the groups and systems have the
                # members they had (the redefinition went through the same adder as a definition)
                g = info.default_group or rng.choice(info.groups)
                seq = [{"c": ci, "k": "disable", "n": 1}, {"c": ci, "k": "ask", "q": ["members", g]}]
                if info.systems:
                    seq.append({"c": ci, "k": "ask", "q": ["sysmembers", rng.choice(info.systems)]})
                seq.append({"c": ci, "k": "ask", "q": ["compat_g", self.unit_str(ci, False), rng.choice([g] + info.systems)]})
                self.pending = seq
            return {"id": sid, "c": ci, "k": "enable", "ctx": rng.choice(info.ctx_names[name]), "base": name, "kw": kw}
        if r < 0.78:
            return {"id": sid, "c": ci, "k": "disable", "n": rng.choice([1, 1, None])}
        if r < 0.84 and info.systems:
            return {"id": sid, "c": ci, "k": "system", "name": rng.choice(info.systems + [None])}
        if r < 0.86:
            return {"id": sid, "c": ci, "k": "newreg"}
        if r < 0.87:
            return {"id": sid, "c": ci, "k": "appreg"}
        if r < 0.89:
            return {"id": sid, "c": ci, "k": "lru"}
        if r < 0.90:
            return {"id": sid, "c": ci, "k": "gc"}
        # long-lived objects
        if self.nlong[ci] == 0 or rng.random() < 0.3:
            self.nlong[ci] += 1
            return {"id": sid, "c": ci, "k": "long_new", "i": self.nlong[ci], "x": rng.choice(["3", "0.5", "8"]),
                    "u": self.unit_str(ci), "arr": rng.random() < 0.4}
        i = rng.randint(1, self.nlong[ci])
        r2 = rng.random()
        if r2 < 0.2:
            s = {"id": sid, "c": ci, "k": "long_ito", "i": i, "u": self.unit_str(ci)}
            if info.contexts and rng.random() < 0.5:
                # in-place conversion across dimensions through a per-call context
                s["ctx"] = rng.choice(info.contexts)[0]
                if info.client["kind"] == "default":
                    s["u"] = rng.choice(["terahertz", "nanometer", "eV", "kelvin", "1/cm"])
            self.pending = [{"c": ci, "k": "long_ask", "i": i, "what": rng.choice(["dim", "dim", "toroot", "fmt"])}]
            return s
        if r2 < 0.40:
            self.pending = [{"c": ci, "k": "long_ask", "i": i, "what": rng.choice(["dim", "dim", "toroot"])}]
            return {"id": sid, "c": ci, "k": "long_iop", "i": i, "op": rng.choice(["imul", "idiv", "ipow"]),
                    "u": self.unit_str(ci, False)}
        return {"id": sid, "c": ci, "k": "long_ask", "i": i, "what": rng.choice(["dim", "toroot", "tobase", "fmt", "udim", "compat"])}


# =========================================================================== the world
class HistoryWorld:
    name = "history"

    def __init__(self, prop):
        self.prop = prop

    def generate(self, streams, tier, index):
        kr = streams.get("knobs")
        wr = streams.get("world")
        use_default = kr.random() < (0.06 if tier == "quick" else 0.10)
        nclients = 1 if use_default else kr.choice([1, 1, 2, 2, 3])
        clients = [gen_client(wr, "default" if use_default and i == 0 else "gen") for i in range(nclients)]
        # the live registries may share one on-disk cache folder (cold for the first, warm afterwards); the
        # pristine registries of the oracle never use it
        knobs = {"lru": kr.choice([1, 2, 8, 128, None]), "default": use_default,
                 "cache_folder": (not use_default) and kr.random() < 0.15}
        pg = ProgGen(streams.get("program"), clients)
        size = kr.choice([6, 10, 16, 24, 40, 60]) if not use_default else kr.choice([6, 10, 16])
        sched = streams.get("schedule")
        program = []
        last_ask = {}
        for _ in range(size):
            ci = sched.randrange(nclients)
            others = [c for c in last_ask if c != ci]
            if others and sched.random() < 0.15 and not getattr(pg, "pending", None):
                # the question another client has just asked, put to this client: the two registries spell
                # it alike but mean different things - no table may be shared between them
                q = last_ask[sched.choice(others)]
                st = {"id": pg.sid(), "c": ci, "k": "ask", "q": q}
            else:
                st = pg.step(ci)
                ci = st["c"]
            if st["k"] == "ask":
                last_ask[st["c"]] = st["q"]
            program.append(st)
        fr = streams.get("faults")
        rates = {}
        if fr.random() < 0.7:
            for site in ("miss:root_units", "miss:conversion_factor", "miss:dimensionality", "miss:parse_unit",
                         "miss:base_units"):
                if fr.random() < 0.5:
                    rates[site] = fr.choice([0.05, 0.2, 0.5, 1.0])
        return {"world": "history", "prop": self.prop, "knobs": knobs, "clients": clients,
                "program": program, "faults": {"seed": fr.getrandbits(32), "rates": rates, "off": []}}

    def run_case(self, case, col: Collector, log: Log | None = None):
        run = _Run(case, col, log or Log())
        try:
            with core.gc_controlled():
                run.setup()
                try:
                    run.execute()
                finally:
                    run.teardown()
        except Violation as v:
            v.sig = run.signature(v)
            return v
        return None

    def sample(self, case):
        return {"index": case["index"], "knobs": case["knobs"],
                "clients": [{"kind": c["kind"], "numtype": c["numtype"],
                             "definitions": render_all(c["spec"]) if c["kind"] == "gen" else "default_en.txt"}
                            for c in case["clients"]],
                "program": case["program"], "fault_plan": case["faults"]}

    def describe(self):
        return {
            "rule": ("one case = 1-3 registries (generated definition sets with equal spellings but different meanings "
                     "and numeric types, or the bundled default registry) + an interleaved schedule of steps per client: "
                     "questions over the whole read-only API (revisited before and after state changes, both directions) "
                     "and state changes (define unit/alias/prefix/prefix-like name, enable/disable context, set "
                     "default_system incl. None, create another registry, switch application registry, lru eviction, gc, "
                     "long-lived objects re-queried) + forced memo misses. Every answer is compared with a pristine registry "
                     "brought to the same declarative state. distinct_nontrivial = distinct (question kind, outcome kind, "
                     "#definitions added (cap 3), context depth (cap 2), system set?, answered-before?) with at least one "
                     "earlier state change or an earlier identical question."),
            "trivial": lambda t: t.endswith("|fresh"),
            "real": ["pint (all registry facets, parser, formatter) from the working tree of /repo", "flexparser",
                     "process-wide lru caches of pint.util"],
            "stubs": ["memo tables wrapped in FlakyDict (forced misses)",
                      "ParserHelper.from_string lru re-wrapped with a per-run size; the oracle registry uses a separate lru"],
            "assumptions": [
                "sampling, not enumeration", "floats of the history-laden and of the pristine registry are compared bit for bit (VERIF_C13_REL=0); open finding R6 is recognised by its exact shape and such answers are not judged further",
                "the pristine oracle registry is built in the same process and hash seed; pattern_to_regex and "
                "_split_format lru caches are shared between the live and the oracle registries",
                "definitions are not added while a redefining context is active (DESIGN.md O3)",
                "redefinition of an existing name is not generated: the property speaks of additions (the canonical name of an implicitly registered prefixed unit, and a case twin of an existing unit in a case-insensitive registry, are additions and are generated)",
            ],
        }

    def shrink(self, case):
        prog = case["program"]
        for cand in ddmin_list(prog):
            c = dict(case)
            c["program"] = cand
            yield c
        f = case["faults"]
        if f["rates"]:
            c = dict(case)
            c["faults"] = dict(f, rates={})
            yield c
            for site in list(f["rates"]):
                c = dict(case)
                c["faults"] = dict(f, rates={k: v for k, v in f["rates"].items() if k != site})
                yield c
        # drop clients that no remaining step uses (keep indexes stable by replacing with a stub)
        used = {s["c"] for s in prog}
        for ci, cl in enumerate(case["clients"]):
            if ci not in used and not cl.get("stub"):
                c = copy.deepcopy(case)
                c["clients"][ci] = {"kind": "gen", "stub": True, "numtype": "float", "case_sensitive": True,
                                    "spec": {"dims": ["[d0]"], "units": [{"name": "ua", "dim": "[d0]"}], "prefixes": [],
                                             "ddims": [], "groups": [], "systems": [], "contexts": []}}
                yield c
        if case["knobs"].get("lru") != 128:
            c = copy.deepcopy(case)
            c["knobs"]["lru"] = 128
            yield c
        # shrink the definitions of generated clients: drop contexts, systems, groups, units nobody mentions
        text = json.dumps(prog)
        for ci, cl in enumerate(case["clients"]):
            if cl["kind"] != "gen" or cl.get("stub"):
                continue
            spec = cl["spec"]
            for key in ("contexts", "systems", "aliases", "ddims"):
                for j in range(len(spec.get(key, ()))):
                    c = copy.deepcopy(case)
                    del c["clients"][ci]["spec"][key][j]
                    if key == "systems":
                        c["clients"][ci]["spec"].pop("defaults", None)
                    yield c
            if spec.get("defaults"):
                c = copy.deepcopy(case)
                c["clients"][ci]["spec"].pop("defaults")
                yield c
            for j in range(len(spec["units"]) - 1, -1, -1):
                u = spec["units"][j]
                if "dim" in u:
                    continue
                c = copy.deepcopy(case)
                del c["clients"][ci]["spec"]["units"][j]
                yield c
            for j, u in enumerate(spec["units"]):
                if u.get("group"):
                    c = copy.deepcopy(case)
                    c["clients"][ci]["spec"]["units"][j].pop("group")
                    yield c


class _State:
    """Declarative state of one client."""

    def __init__(self):
        self.defs = []
        self.ctx = []  # (name as given, kwargs)
        self.system = None  # None = never set; ("set", name)
        self.longs = {}  # i -> {"x":, "units": normalised units of the live object}

    def key(self):
        return json.dumps([self.defs, self.ctx, self.system], sort_keys=True)


class _Run:
    def __init__(self, case, col, log):
        self.case = case
        self.col = col
        self.log = log
        self.plan = FaultPlan(case["faults"])
        self.cur = None
        self.oracle_cache = {}

    def setup(self):
        pint = core.import_pint()
        self.pint = pint
        import pint.util as putil

        self._putil = putil
        self._orig_from_string = putil.ParserHelper.__dict__["from_string"]
        raw = self._orig_from_string.__func__.__wrapped__
        self._raw = raw
        self._live_lru = classmethod(functools.lru_cache(maxsize=self.case["knobs"].get("lru", 128))(raw))
        putil.ParserHelper.from_string = self._live_lru
        self._orig_app = pint.application_registry.get()
        self.cache_dir = None
        if self.case["knobs"].get("cache_folder"):
            import os
            import tempfile

            self.cache_dir = tempfile.mkdtemp(prefix="verif-c13-", dir="/dev/shm" if os.path.isdir("/dev/shm") else None)
        self.infos = [ClientInfo(c) for c in self.case["clients"]]
        self.regs = []
        self.states = []
        self.asked = [dict() for _ in self.infos]
        self.extra = []
        self.longobj = [dict() for _ in self.infos]
        for ci, info in enumerate(self.infos):
            self.regs.append(self.build(ci, None))
            self.states.append(_State())
        for ureg in self.regs:
            core.install_flaky(ureg, self.plan, self.col)
        self.log.ev("setup", [c["kind"] for c in self.case["clients"]], self.case["knobs"])

    def teardown(self):
        self._putil.ParserHelper.from_string = self._orig_from_string
        self.pint.set_application_registry(self._orig_app)
        if getattr(self, "cache_dir", None):
            import shutil

            shutil.rmtree(self.cache_dir, ignore_errors=True)

    def num(self, ci):
        T = NUMTYPES[self.case["clients"][ci]["numtype"]]
        return lambda s: int(s) if str(s).lstrip("-").isdigit() else T(str(s))

    def build(self, ci, state):
        """A registry of client ``ci``; with ``state`` given, a pristine one brought to that state."""
        cl = self.case["clients"][ci]
        info = self.infos[ci]
        T = NUMTYPES[cl["numtype"]]
        kw = {"non_int_type": T, "case_sensitive": cl["case_sensitive"]}
        if state is None and getattr(self, "cache_dir", None):
            kw["cache_folder"] = self.cache_dir
        extra = list(state.defs) if state else []
        try:
            if cl["kind"] == "gen":
                ureg = self.pint.UnitRegistry(list(info.lines) + extra, **kw)
                for lines in info.py_contexts:
                    ureg.add_context(self.pint.Context.from_lines(list(lines), non_int_type=T))
            else:
                ureg = self.pint.UnitRegistry(**kw)
                for line in extra:  # the bundled file cannot be extended textually: define() on a pristine registry
                    ureg.define(line)
        except Exception as e:
            if state is None:
                raise HarnessError(f"client {ci} does not load: {type(e).__name__}: {e}")
            raise
        if state:
            if state.system is not None:
                ureg.default_system = state.system[1]
            for name, ckw in state.ctx:
                ureg.enable_contexts(name, **{k: self.num(ci)(v) for k, v in ckw.items()})
        return ureg

    class _oracle_mode:
        """While the pristine registry works, the process-wide parse lru is a separate, cold one."""

        def __init__(self, run):
            self.run = run

        def __enter__(self):
            self.run._putil.ParserHelper.from_string = classmethod(functools.lru_cache(maxsize=None)(self.run._raw))

        def __exit__(self, *a):
            self.run._putil.ParserHelper.from_string = self.run._live_lru

    def oracle(self, ci, fn):
        """Evaluate fn(pristine registry) for client ci in its current declarative state."""
        st = self.states[ci]
        with self._oracle_mode(self):
            if self.case["clients"][ci]["kind"] == "default":
                # 0.2-0.3 s to build: one pristine registry per declarative state, questions in order asked
                key = (ci, st.key())
                fresh = self.oracle_cache.get(key)
                if fresh is None:
                    self.oracle_cache.clear()
                    fresh = self.oracle_cache[key] = self.build(ci, st)
            else:
                fresh = self.build(ci, st)
            return fn(fresh)

    # ------------------------------------------------------------ interpreter
    def execute(self):
        for s in self.case["program"]:
            self.step(s)

    def step(self, s):
        self.col.steps += 1
        self.cur = s["id"]
        ci = s["c"]
        ureg, st, info = self.regs[ci], self.states[ci], self.infos[ci]
        self.plan.at_step(s["id"])
        for u in self.regs:
            core.install_flaky(u, self.plan, self.col)
        k = s["k"]
        num = self.num(ci)
        if k == "ask":
            q = s["q"]
            a = ask(ureg, q, num)
            b = self.oracle(ci, lambda fresh: ask(fresh, q, num))
            qk = json.dumps(q)
            before = qk in self.asked[ci]
            self.asked[ci][qk] = True
            self.col.checks += 1
            changed = bool(st.defs or st.ctx or st.system)
            self.col.trans(q[0], a[0], min(len(st.defs), 3), min(len(st.ctx), 2), st.system is not None,
                           "again" if before else ("hist" if changed or self.col.steps > 1 else "fresh"))
            self.log.ev(s["id"], ci, "ask", q, a)
            if not core.answers_equal(a, b, REL) and self.shape_R6(ci, q, a, b) and "R6" in core.open_findings():
                self.col.probe("known_finding:R6")
            elif not core.answers_equal(a, b, REL):
                raise Violation("C13.fresh", s["id"], {
                    "client": ci, "question": q, "live_answer": a, "pristine_answer": b,
                    "state": {"defs": st.defs, "contexts": st.ctx, "system": st.system},
                    "asked_before": before})
        elif k == "define":
            if any(info.redefining(b) for (_, _, b) in self._ctx_bases(ci)):
                self.col.probe("define_skipped_overlay_active")
                return
            try:
                ureg.define(s["line"])
            except Exception as e:
                # an addition that pint refuses is not a state change (both sides keep the old state)
                self.col.probe("define_refused:" + type(e).__name__)
                self.log.ev(s["id"], ci, "define-refused", s["line"], type(e).__name__)
                refused = True
            else:
                refused = False
            if not refused:
                st.defs.append(s["line"])
                self.col.fault("state_change:define")
                self.log.ev(s["id"], ci, "define", s["line"])
        elif k == "enable":
            kw = {kk: num(v) for kk, v in s["kw"].items()}
            try:
                ureg.enable_contexts(s["ctx"], **kw)
            except Exception as e:
                self.log.ev(s["id"], ci, "enable-failed", type(e).__name__)
                return
            st.ctx.append([s["ctx"], s["kw"]])
            self.col.fault("state_change:enable")
            self.log.ev(s["id"], ci, "enable", s["ctx"], s["kw"])
        elif k == "disable":
            n = s["n"]
            ureg.disable_contexts(n)
            if n is None:
                st.ctx.clear()
            else:
                del st.ctx[max(0, len(st.ctx) - n):]
            self.col.fault("state_change:disable")
            self.log.ev(s["id"], ci, "disable", n)
        elif k == "system":
            try:
                ureg.default_system = s["name"]
            except Exception as e:
                self.log.ev(s["id"], ci, "system-failed", type(e).__name__)
                return
            st.system = ["set", s["name"]]
            self.col.fault("state_change:default_system")
            self.log.ev(s["id"], ci, "system", s["name"])
        elif k == "newreg":
            # creating and using another registry must not change anybody's answers
            other = self.build(ci, None)
            ask(other, ["conv", "2", info.units[0], info.units[0]], num)
            self.extra.append(other)
            self.col.fault("other_registry_created")
            self.log.ev(s["id"], ci, "newreg")
        elif k == "appreg":
            self.pint.set_application_registry(ureg)
            self.col.fault("application_registry_switched")
            self.log.ev(s["id"], ci, "appreg")
        elif k == "lru":
            self._putil.ParserHelper.from_string.cache_clear()
            try:
                import pint.facets.plain.registry as preg
                from pint.delegates.formatter import _spec_helpers

                preg.pattern_to_regex.cache_clear()
                _spec_helpers._split_format.cache_clear()
            except Exception:
                pass
            self.col.fault("lru_evict")
            self.log.ev(s["id"], ci, "lru")
        elif k == "gc":
            gc.collect()
            self.col.fault("gc_now")
        elif k == "long_new":
            try:
                mag = num(s["x"])
                if s.get("arr"):
                    import numpy as np

                    mag = np.array([float(mag), 2.0])
                q = ureg.Quantity(mag, s["u"])
                u = ureg.Unit(s["u"])
            except Exception as e:
                self.log.ev(s["id"], ci, "long_new-failed", type(e).__name__)
                return
            self.longobj[ci][s["i"]] = (q, u)
            st.longs[s["i"]] = {"x": s["x"], "units": core.norm_units(q)}
            self.log.ev(s["id"], ci, "long_new", s["i"], st.longs[s["i"]])
        elif k == "long_ito":
            if s["i"] not in self.longobj[ci]:
                return
            q, u = self.longobj[ci][s["i"]]
            try:
                q.dimensionality  # the per-object memo exists before the units change in place
                if s.get("ctx"):
                    q.ito(s["u"], s["ctx"])
                else:
                    q.ito(s["u"])
            except Exception as e:
                self.log.ev(s["id"], ci, "long_ito-failed", type(e).__name__)
                return
            st.longs[s["i"]] = {"mag": core.norm_num(q.magnitude), "units": core.norm_units(q), "x": None}
            self.log.ev(s["id"], ci, "long_ito", s["i"], st.longs[s["i"]])
        elif k == "long_iop":
            if s["i"] not in self.longobj[ci]:
                return
            q, u = self.longobj[ci][s["i"]]
            try:
                q.dimensionality
                other = ureg.Quantity(2.0, s["u"])
                if s["op"] == "imul":
                    q *= other
                elif s["op"] == "idiv":
                    q /= other
                else:
                    q **= 2
            except Exception as e:
                self.log.ev(s["id"], ci, "long_iop-failed", type(e).__name__)
                return
            self.longobj[ci][s["i"]] = (q, u)  # augmented assignment may rebind to a new object
            st.longs[s["i"]] = {"mag": core.norm_num(q.magnitude), "units": core.norm_units(q), "x": None}
            self.col.fault("state_change:inplace_arithmetic")
            self.log.ev(s["id"], ci, "long_iop", s["i"], s["op"], st.longs[s["i"]])
        elif k == "long_ask":
            if s["i"] not in self.longobj[ci]:
                return
            q, u = self.longobj[ci][s["i"]]
            rec = st.longs[s["i"]]
            what = s["what"]
            a = self.long_answer(q, u, what)

            def fresh_answer(fresh):
                for n, _ in list(rec["units"]) + core.norm_units(u):
                    try:  # prefixed units exist in a registry only once they have been parsed (cf. pint._unpickle)
                        fresh.parse_units(n)
                    except Exception:
                        pass
                # magnitude and exponents are plain data: handed over as they are (type included)
                units = fresh.UnitsContainer({n: q._units[n] for n in q._units})
                fq = fresh.Quantity(q.magnitude, units)
                fu = fresh.Unit(fresh.UnitsContainer({n: u._units[n] for n in u._units}))
                return self.long_answer(fq, fu, what)

            b = self.oracle(ci, fresh_answer)
            self.col.checks += 1
            self.col.trans("long_" + what, a[0], min(len(st.defs), 3), min(len(st.ctx), 2), st.system is not None, "hist")
            self.log.ev(s["id"], ci, "long_ask", s["i"], what, a)
            if not core.answers_equal(a, b, REL) and self.shape_R6(ci, ["long_" + what], a, b) and "R6" in core.open_findings():
                self.col.probe("known_finding:R6")
            elif not core.answers_equal(a, b, REL):
                raise Violation("C13.fresh", s["id"], {
                    "client": ci, "question": ["long", what, rec], "live_answer": a, "pristine_answer": b,
                    "state": {"defs": st.defs, "contexts": st.ctx, "system": st.system}, "asked_before": True})
        else:
            raise HarnessError(f"unknown step {k}")

    def shape_R6(self, ci, q, a, b):
        """Exactly the recorded shape of finding R6: a compatible-units listing of the live registry
        that lacks nothing but units added by define() after construction."""
        if q[0] not in ("compat", "compat_g", "long_compat", "members", "sysmembers") or a[0] != "ok" or b[0] != "ok":
            return False
        runtime = set()
        for line in self.states[ci].defs:
            head = line.split("=")[0].strip()
            if not line.startswith("@") and not head.endswith("-"):
                runtime.add(head)
        live, pristine = set(a[1]), set(b[1])
        return live < pristine and (pristine - live) <= runtime

    @staticmethod
    def _exp(e):
        if isinstance(e, str) and "/" in e:
            return Fraction(e)
        return e

    def _ctx_bases(self, ci):
        """(name, kw, canonical context name) of the client's active contexts."""
        info = self.infos[ci]
        out = []
        for name, kw in self.states[ci].ctx:
            base = name
            for b, names in info.ctx_names.items():
                if name in names:
                    base = b
            out.append((name, kw, base))
        return out

    def long_answer(self, q, u, what):
        try:
            if what == "dim":
                return ["ok", core.norm_units(q.dimensionality)]
            if what == "udim":
                return ["ok", core.norm_units(u.dimensionality)]
            if what == "toroot":
                r = q.to_root_units()
                return ["ok", core.norm_num(r.magnitude), core.norm_units(r)]
            if what == "tobase":
                r = q.to_base_units()
                return ["ok", core.norm_num(r.magnitude), core.norm_units(r)]
            if what == "fmt":
                return ["ok", format(q, "~P"), format(u, "D")]
            if what == "compat":
                from ..questions import unit_name_set

                return ["ok", unit_name_set(u.compatible_units())]
        except Exception as e:
            return ["exc", type(e).__name__]
        raise HarnessError(what)

    def signature(self, v):
        d = v.detail
        q = d["question"]
        st = d["state"]
        if q[0] != "long" and self.shape_R6(d["client"], q, d["live_answer"], d["pristine_answer"]):
            return f"{v.rule}/{q[0]}/runtime-units-missing"
        if q[0] == "long" and self.shape_R6(d["client"], ["long_" + q[1]], d["live_answer"], d["pristine_answer"]):
            return f"{v.rule}/long_compat/runtime-units-missing"
        flags = "".join(["D" if st["defs"] else "", "C" if st["contexts"] else "", "S" if st["system"] else ""])
        info = self.infos[d["client"]]
        if info.table is not None:
            implicit = {p["name"] + u for p in info.table.prefixes.values() for u in info.table.order}
            if any(line.split("=")[0].strip() in implicit for line in st["defs"]):
                flags += "P"  # a definition took the canonical name of an implicitly defined prefixed unit
        return f"{v.rule}/{q[0]}/{d['live_answer'][0]}-{d['pristine_answer'][0]}/{flags}"
