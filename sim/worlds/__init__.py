"""One world per engine. ``get_world(property_id)`` returns the world object deciding it."""


def get_world(prop: str):
    if prop in ("C11", "C12"):
        from .ctx import CtxWorld

        return CtxWorld(prop)
    if prop == "C13":
        from .history import HistoryWorld

        return HistoryWorld(prop)
    if prop == "C14":
        from .systems import SystemsWorld

        return SystemsWorld(prop)
    if prop == "C08":
        from .names import NamesWorld

        return NamesWorld(prop)
    if prop == "C10":
        from .loading import LoadingWorld

        return LoadingWorld(prop)
    if prop == "C18":
        from .registries import RegistriesWorld

        return RegistriesWorld(prop)
    raise KeyError(prop)


def describe(prop: str) -> dict:
    """Evidence metadata of the world deciding ``prop`` (no pint import needed)."""
    return get_world(prop).describe()
