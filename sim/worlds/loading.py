"""World ``loading`` (C10): definition files mean what they say, whatever the loading path
and whatever earlier processes left on the disk.

A run is a sequence of *process steps* over one scratch directory (the simulated disk, on
/dev/shm). Every step constructs a registry in a forked child of the worker - which has
imported pint but never built a registry - so that, as after a crash and restart, only
the disk survives from one step to the next. The child returns a meaning fingerprint taken
through the read-only API; it is compared with the fingerprint the spec implies (exact
reference table) and with the other steps of the run. Disk events between steps: torn
cache entries, I/O errors while the cache is written or read, edited sources and imports,
the same text in another directory with other imports, another numeric type on the same
cache folder, deleted cache.
"""

from __future__ import annotations

import copy
import errno
import io
import json
import os
import pathlib
import shutil
import tempfile
from decimal import Decimal
from fractions import Fraction

from .. import core
from ..core import Collector, FaultPlan, HarnessError, Log, Violation, ddmin_list, exc_name, frac, norm_num, norm_units
from ..gen import (DEC_FACTORS, RefTable, gen_general, mono_str, render_group, render_prefix, render_simple_context,
                   render_system, render_unit, render_ddim, vec_key)
from .systems import GroupModel

NUMTYPES = {"float": float, "Fraction": Fraction, "Decimal": Decimal}
SCRATCH_ROOT = "/dev/shm" if os.path.isdir("/dev/shm") else None

ILLFORMED = {
    "invalid_unit_name": (["a+b = 3 * ua"], None),
    "invalid_unit_name_digit": (["3x = 3 * ua"], None),
    "mixed_dimension_unit_reference": (["w0 = 2 * ua * [d1]"], "w0"),
    "cycle": (["w1 = 2 * w2", "w2 = 3 * w1"], "w1"),
    "self_cycle": (["w3 = 2 * w3"], "w3"),
    "non_numeric_modifier": (["w4 = 2 * ua; offset: abc"], "w4"),
    "unknown_modifier": (["w5 = 2 * ua; foo: 3"], "w5"),
    "unknown_directive": (["@frobnicate x", "@end"], None),
    "unterminated_block": (["@group g9", "    w6 = 2 * ua"], None),
    "unknown_alias_target": (["@alias nosuch = w7"], None),
    "unknown_group_in_using": (["@group g8 using nosuchgroup", "    w8 = 2 * ua", "@end"], "w8"),
    "unknown_defaults_key": (["@defaults", "    colour = red", "@end"], None),
    "unused_context_parameter": (["@context(n=1) cq", "    [d0] -> [d1]: value * ub / ua", "@end"], None),
    "non_numeric_prefix_value": (["mega- = abc = M-"], None),
    "derived_dimension_with_unit": (["[s9] = [d0] * ua"], None),
    "system_replaces_non_root_unit": (["@system sq", "    v0:v0", "@end"], None),
    "system_old_unit_not_in_new": (["@system sr", "    v0:ub", "@end"], None),
    "system_with_undefined_unit": (["@system ss", "    nosuchunit", "@end"], None),
    "system_new_unit_not_single_root": (["@system st", "    v1", "@end"], None),
    "undefined_reference": (["w9 = 2 * nosuchunit"], "w9"),
    "empty_modifier_value": (["w10 = 2 * ua; offset:"], "w10"),
    "empty_unit_value": (["w11 = "], "w11"),
    "double_equal_sign": (["w12 == 3 * ua"], "w12"),
    "empty_prefix_value": (["mega- = "], None),
    "non_numeric_logfactor": (["w13 = 2 * ua; logbase: 10; logfactor: x"], "w13"),
    "modifier_with_unit": (["w14 = 2 * ua; offset: 3 ub"], "w14"),
    "dangling_operator": (["w15 = 3 * ua *"], "w15"),
    "unbalanced_parenthesis": (["w16 = 3 * (ua"], "w16"),
    "group_with_non_definition": (["@group gz", "    not a definition", "@end"], None),
    "system_rule_with_three_parts": (["@system sz", "    a:b:c", "@end"], None),
    "context_with_unparsable_line": (["@context cz", "    nonsense line", "@end"], None),
    "relation_with_unit_endpoint": (["@context cr", "    [d0] -> ua: value", "@end"], None),
    # invalid names that used to be read as something else (round 6: the header regex was searched, not matched,
    # and the symbol check looked at the name)
    "symbol_with_space": (["w17 = 2 * ua = w s"], "w17"),
    "prefix_symbol_with_space": (["zz- = 10 = z z-"], None),
    "group_name_with_dash": (["@group my-group", "    w18 = 2 * ua", "@end"], None),
    "group_using_glued_to_name": (["@group gq usingroot", "    w19 = 2 * ua", "@end"], None),
    "system_name_with_dash": (["@system my-sys using root", "    ub", "@end"], None),
}


# =========================================================================== layout
def render_files(spec, rng, layout) -> dict:
    """Render a spec into {relative path: text}: unit and prefix lines permuted, spacing and
    comments varied, optionally split over files connected by @import."""
    units = spec["units"]
    A = []  # order-free part: one entry = list of lines
    for p in spec["prefixes"]:
        A.append([render_prefix(p)])
    for u in units:
        if not u.get("group"):
            A.append([render_unit(u)])
    for d in spec.get("ddims", ()):
        A.append([render_ddim(d)])
    if spec.get("free_ddim"):
        A.append([f"[zfree] = [zundeclared] / {spec['dims'][0]}"])
    if layout.get("permute", True):
        rng.shuffle(A)
    # group blocks keep their relative order (a group must exist before another one uses it);
    # they are interleaved with the permuted unit and prefix lines at random places
    G = [render_group(g, units) for g in spec.get("groups", ())]
    if layout.get("permute", True):
        slots = sorted(rng.randint(0, len(A)) for _ in G)
        for off, (pos, g) in enumerate(zip(slots, G)):
            A.insert(pos + off, g)
    else:
        A.extend(G)
    tail = []
    for a in spec.get("aliases", ()):
        tail.append(["@alias " + " = ".join([a["unit"], *a["aliases"]])])
    B = [render_system(s) for s in spec.get("systems", ())] + [render_simple_context(c) for c in spec.get("contexts", ())]
    if layout.get("permute", True):
        rng.shuffle(B)
    head = []
    if spec.get("defaults"):
        items = list(spec["defaults"].items())
        if layout.get("permute", True) and rng.random() < 0.5:
            items.reverse()  # the keys of the block are named: their order means nothing
        head.append(["@defaults"] + [f"    {k} = {v}" for k, v in items] + ["@end"])

    def decorate(lines):
        out = []
        for ln in lines:
            if layout.get("spacing") and "=" in ln and not ln.lstrip().startswith("@") and ":" not in ln:
                ln = ln.replace(" = ", rng.choice([" = ", "  =  ", " =  ", "   = "]))
            if layout.get("comments") and rng.random() < 0.3 and not ln.lstrip().startswith("@"):
                ln = ln + "  # " + rng.choice(["note", "checked", "x = 1", "see table 3"])
            out.append(ln)
            if layout.get("comments") and rng.random() < 0.15:
                out.append("# " + rng.choice(["section", "-----", "units = many"]))
            if layout.get("spacing") and rng.random() < 0.15:
                out.append("")
        return out

    nfiles = layout.get("files", 1)
    files = {}
    main = []
    if nfiles > 1 and len(A) >= 2:
        k = rng.randint(1, len(A) - 1)
        first, rest = A[:k], A[k:]
        sub = []
        if nfiles > 2 and len(first) >= 2:
            k2 = rng.randint(1, len(first) - 1)
            deep = first[:k2]
            first = first[k2:]
            files["sub/deep/more.txt"] = "\n".join(l for e in deep for l in decorate(e)) + "\n"
            sub.append("@import deep/more.txt")
        sub.extend(l for e in first for l in decorate(e))
        files["sub/extra.txt"] = "\n".join(sub) + "\n"
        main.append("@import sub/extra.txt")
        A = rest
    for e in head + A + tail + B:
        main.extend(decorate(e))
    files["main.txt"] = "\n".join(main) + "\n"
    return files


def statements(spec) -> list:
    """The spec as a list of define() arguments (single lines or whole blocks), in an order that
    respects what pint documents: aliases after their unit, systems and contexts last."""
    out = []
    for p in spec["prefixes"]:
        out.append(render_prefix(p))
    for u in spec["units"]:
        if not u.get("group"):
            out.append(render_unit(u))
    for d in spec.get("ddims", ()):
        out.append(render_ddim(d))
    if spec.get("free_ddim"):
        out.append(f"[zfree] = [zundeclared] / {spec['dims'][0]}")
    for g in spec.get("groups", ()):
        out.append("\n".join(render_group(g, spec["units"])))
    for a in spec.get("aliases", ()):
        out.append("@alias " + " = ".join([a["unit"], *a["aliases"]]))
    for s in spec.get("systems", ()):
        out.append("\n".join(render_system(s)))
    for c in spec.get("contexts", ()):
        out.append("\n".join(render_simple_context(c)))
    return out


# =========================================================================== expected meaning
def expected_fingerprint(spec, with_defaults=True) -> dict:
    """What the files say, computed by the exact reference table (no pint)."""
    t = RefTable(spec)
    bod = t.base_unit_of_dim()
    fp = {"names": {}, "root": {}, "prefix": {}, "offset": {}, "groups": {}, "systems": {}, "sysbase": {}, "ctx": {},
          "redef": {}}
    for sp, n in t.spellings().items():
        fp["names"][sp] = n
    fp["symbols"] = {n: (t.units[n].get("symbol") or n) for n in t.order}
    # case-insensitive lookup of every spelling in another letter case (own names table)
    from ..names_model import NamesTable

    nt = NamesTable.from_spec(spec)
    fp["ci"] = {}
    for sp in t.spellings():
        v = _other_case(sp)
        rs = nt.readings(v, True) or nt.readings(v, False)
        fp["ci"][v] = {"any_of": sorted({nt.canonical(r) for r in rs}) or ["exc:UndefinedUnitError"]}
    for n in t.order:
        u = t.units[n]
        f, d = t.root_of_unit(n)
        fp["root"][n] = [norm_num(f), sorted([bod[k], e] for k, e in d.items())]
        if u.get("offset") is not None:
            # value v in this unit is (v * scale + offset) in the reference unit
            ref = u["ref"]
            rf, _ = t.root(ref)
            fp["offset"][n] = [norm_num((frac(x) * frac(u["factor"]) + frac(u["offset"])) * rf) for x in ("0", "1", "2.5")]
    names = [u["name"] for u in spec["units"] if u.get("offset") is None]
    for p in spec["prefixes"]:
        for sp in [p["name"]] + ([p["symbol"]] if p.get("symbol") else []) + list(p.get("aliases", ())):
            fp["prefix"][sp] = norm_num(frac(p["factor"]))
    gm = GroupModel(spec, t)
    if not with_defaults and gm.default_group:
        gm = GroupModel(dict(spec, defaults=None), t)
    for g in gm.groups:
        fp["groups"][g] = sorted(gm.members(g))
    for s in gm.systems:
        fp["systems"][s] = sorted(gm.sys_members(s))
        for n in names[:6]:
            ef, eunits = gm.expected_base({n: 1}, s)
            fp["sysbase"][f"{s}|{n}"] = None if ef is None else [norm_num(ef), sorted([k, v] for k, v in eunits.items())]
    fp["default_system"] = (spec.get("defaults") or {}).get("system") if with_defaults else None
    fp["compat"] = {}
    if with_defaults:
        # compatible units: same dimensionality, within the default system's members if there is one
        # (registries filled after construction are not asked: finding R6 of property C13)
        dims = {n: vec_key(t.root_of_unit(n)[1]) for n in t.order}
        restrict = set(gm.sys_members(fp["default_system"])) if fp["default_system"] else None
        # pint generates a delta_ counterpart for every offset unit (not a member of any group)
        deltas = {"delta_" + m: dims[m] for m in t.order if t.units[m].get("offset") not in (None, "0")}
        for n in t.order:
            same = {m for m in t.order if dims[m] == dims[n]} if dims[n] else set()
            same |= {m for m, dm in deltas.items() if dm == dims[n] and dims[n]}
            fp["compat"][n] = sorted(same & restrict if restrict is not None else same)
    for c in spec.get("contexts", ()):
        for i, r in enumerate(c["rules"]):
            (a, _), = r["src"].items()
            (b, _), = r["dst"].items()
            k = frac(r["K"])
            if r.get("par"):
                k *= frac(c["defaults"][r["par"][0]]) ** r["par"][1]
            fp["ctx"][f"{c['name']}|{i}"] = norm_num(2 * k)
        for rd in c["redefs"]:
            t2 = t.copy()
            t2.units[rd["name"]] = dict(t.units[rd["name"]], factor=rd["factor"], ref=rd["ref"])
            f, d = t2.root_of_unit(rd["name"])
            fp["redef"][f"{c['name']}|{rd['name']}"] = norm_num(f)
    if spec.get("free_ddim"):
        fp["dimension"] = {"[zfree]": sorted([["[zundeclared]", 1], [spec["dims"][0], -1]])}
    later = _later_alias(spec)
    if later:
        fp["later"] = {"alias_of_prefixed_unit": later[0]}
    return fp


def _later_alias(spec):
    """(prefix name + unit name, new alias): an alias given, after loading, to a prefixed unit that nothing has used
    yet - whether such a unit is already in the unit table depends on the loading path (a registry read from the disk
    cache has not walked the definitions), what the alias denotes must not."""
    names = [u["name"] for u in spec["units"] if u.get("offset") is None]
    if len(names) < 2 or not spec.get("prefixes"):
        return None
    return spec["prefixes"][0]["name"] + names[1], "zzlateralias"


def take_fingerprint(ureg, spec, num, full=True) -> dict:
    """The same questions put to a real registry through its public read-only API."""
    t = RefTable(spec)
    bod = t.base_unit_of_dim()
    fp = {"names": {}, "root": {}, "prefix": {}, "offset": {}, "groups": {}, "systems": {}, "sysbase": {}, "ctx": {},
          "redef": {}}

    def guard(f):
        try:
            return f()
        except Exception as e:
            return "exc:" + exc_name(e)

    for sp in t.spellings():
        fp["names"][sp] = guard(lambda: ureg.get_name(sp))
    fp["symbols"] = {n: guard(lambda: ureg.get_symbol(n)) for n in t.order}
    fp["ci"] = {}
    for sp in t.spellings():
        v = _other_case(sp)
        fp["ci"][v] = guard(lambda: ureg.get_name(v, case_sensitive=False))
    for n in t.order:
        u = t.units[n]

        def root():
            f, uu = ureg.get_root_units(n, check_nonmult=False)
            return [norm_num(f), norm_units(uu)]

        fp["root"][n] = guard(root)
        if u.get("offset") is not None:
            (refname, _), = u["ref"].items()
            base = mono_str({bod[k]: e for k, e in t.root_of_unit(n)[1].items()})
            fp["offset"][n] = guard(lambda: [norm_num(ureg.Quantity(num(x), n).to(base).magnitude) for x in ("0", "1", "2.5")])
    names = [u["name"] for u in spec["units"] if u.get("offset") is None]
    probe_unit = names[0]
    for p in spec["prefixes"]:
        for sp in [p["name"]] + ([p["symbol"]] if p.get("symbol") else []) + list(p.get("aliases", ())):
            fp["prefix"][sp] = guard(lambda: norm_num(ureg.Quantity(num("1"), sp + probe_unit).to(probe_unit).magnitude))
    for g in [g["name"] for g in spec.get("groups", ())] + ["root"]:
        fp["groups"][g] = guard(lambda: sorted(ureg.get_group(g, False).members))
    for s in spec.get("systems", ()):
        fp["systems"][s["name"]] = guard(lambda: sorted(ureg.get_system(s["name"], False).members))
        for n in names[:6]:
            def sb():
                f, uu = ureg.get_base_units(n, system=s["name"])
                return [norm_num(f), norm_units(uu)]
            fp["sysbase"][f"{s['name']}|{n}"] = guard(sb)
    fp["default_system"] = guard(lambda: ureg.default_system)
    fp["compat"] = {}
    if full:
        for n in t.order:
            if t.root_of_unit(n)[1]:
                fp["compat"][n] = guard(lambda: sorted(norm_units(x)[0][0] for x in ureg.get_compatible_units(n)))
            else:
                fp["compat"][n] = []
    for c in spec.get("contexts", ()):
        for i, r in enumerate(c["rules"]):
            (a, _), = r["src"].items()
            (b, _), = r["dst"].items()

            def cv():
                with ureg.context(c["name"]):
                    return norm_num(ureg.Quantity(num("2"), bod[a]).to(bod[b]).magnitude)
            fp["ctx"][f"{c['name']}|{i}"] = guard(cv)
        for rd in c["redefs"]:
            def rdf():
                with ureg.context(c["name"]):
                    return norm_num(ureg.get_root_units(rd["name"])[0])
            fp["redef"][f"{c['name']}|{rd['name']}"] = guard(rdf)
    if spec.get("free_ddim"):
        fp["dimension"] = {"[zfree]": guard(lambda: norm_units(ureg.get_dimensionality("[zfree]")))}
    later = _later_alias(spec)
    if later:
        def la():
            ureg.define(f"@alias {later[0]} = {later[1]}")
            return ureg.get_name(later[1])
        fp["later"] = {"alias_of_prefixed_unit": guard(la)}
    return fp


def _other_case(sp):
    return sp.upper() if sp != sp.upper() else sp.lower()


def fp_diff(a, b) -> list:
    """Paths at which two fingerprints differ (numbers compared with tolerance when float)."""
    out = []
    for sec in a:
        if isinstance(a[sec], dict):
            for k in sorted(set(a[sec]) | set(b.get(sec, {}))):
                va, vb = a[sec].get(k, "<absent>"), b.get(sec, {}).get(k, "<absent>")
                if isinstance(va, dict) and "any_of" in va:
                    if vb not in va["any_of"]:
                        out.append([sec, k, va, vb])
                elif not core.answers_equal(va, vb):
                    out.append([sec, k, va, vb])
        elif not core.answers_equal(a[sec], b.get(sec)):
            out.append([sec, None, a[sec], b.get(sec)])
    return out


# =========================================================================== faulty disk
class _FailingWriter(io.RawIOBase):
    def __init__(self, real, budget, err):
        self.real = real
        self.budget = budget
        self.err = err

    def writable(self):
        return True

    def write(self, b):
        n = len(b)
        if n > self.budget:
            if self.budget > 0:
                self.real.write(bytes(b[: self.budget]))
            self.budget = 0
            self.real.flush()
            raise OSError(self.err, os.strerror(self.err))
        self.budget -= n
        return self.real.write(b)

    def close(self):
        try:
            self.real.close()
        finally:
            super().close()


def install_io_fault(cache_dir, kind, after, err):
    """In the (forked) process: make pathlib.Path.open fail after ``after`` bytes for files in
    the cache folder. kind: 'write' or 'read'."""
    orig_open = pathlib.Path.open
    cache_dir = os.path.realpath(cache_dir)

    def faulty_open(self, mode="r", *a, **kw):
        p = os.path.realpath(str(self))
        if p.startswith(cache_dir + os.sep):
            if kind == "write" and ("w" in mode):
                raw = orig_open(self, "wb")
                w = _FailingWriter(raw, after, err)
                if "b" in mode:
                    return io.BufferedWriter(w, buffer_size=64)
                return io.TextIOWrapper(io.BufferedWriter(w, buffer_size=64), encoding=kw.get("encoding", "utf-8"))
            if kind == "read" and "r" in mode and p.endswith(".pickle"):
                data = orig_open(self, "rb").read()

                class R(io.RawIOBase):
                    pos = 0

                    def readable(self):
                        return True

                    def readinto(self, buf):
                        if R.pos >= after:
                            raise OSError(err, os.strerror(err))
                        n = min(len(buf), after - R.pos, len(data) - R.pos)
                        buf[:n] = data[R.pos:R.pos + n]
                        R.pos += n
                        return n

                return io.BufferedReader(R(), buffer_size=64)
        return orig_open(self, mode, *a, **kw)

    pathlib.Path.open = faulty_open


# =========================================================================== generation
def gen_case(streams, prop, tier):
    wr = streams.get("world")
    kr = streams.get("knobs")
    spec = gen_general(wr, {"offset": True})
    # a derived dimension that refers to a dimension no base unit declares ([exposure] = [dose] * [time] without any
    # unit of [dose]): the undeclared one becomes a base dimension by being mentioned
    spec["free_ddim"] = kr.random() < 0.5
    # well-formed systems only (see worlds/systems.py): keep rules whose other root units have exponent +-1
    from .systems import gen_spec as gen_sys_spec  # noqa
    layout = {"permute": kr.random() < 0.85, "spacing": kr.random() < 0.6, "comments": kr.random() < 0.6,
              "files": kr.choice([1, 1, 2, 3]), "seed": kr.getrandbits(32)}
    numtype = kr.choice(["float", "Fraction", "Decimal"])
    pr = streams.get("program")
    cached = ["file_cache", "file_cache", "lines_cache"] if layout["files"] == 1 else ["file_cache"]
    other_types = [t for t in ("float", "Fraction", "Decimal") if t != numtype]

    def load(path=None, d="A", **kw):
        return dict({"k": "load", "path": path or pr.choice(cached), "dir": d}, **kw)

    def io_fault():
        return {"kind": pr.choice(["write", "write", "read"]), "after": pr.choice([0, 1, 10, 100, 1000, 5000]),
                "errno": pr.choice(["ENOSPC", "EIO"])}

    def torn():
        return {"k": "torn", "json": pr.choice(["complete", "complete", "absent", "empty", "cut"]),
                "pickle": pr.choice(["absent", "empty", "cut", "cut", "cut1", "allbut1"]), "which": pr.getrandbits(16),
                "cut": pr.random()}

    scenarios = {
        "warm": lambda: [load(), load(), load("file")],
        "torn": lambda: [load(), torn(), load(), {"k": "rm_cache"}, load()],
        "foreign_dir": lambda: [load("file_cache"), {"k": "copy_dir", "factor": pr.choice(DEC_FACTORS)}, load("file_cache", "B"),
                                load("file_cache")],
        "edit": lambda: [load(), {"k": "edit", "what": pr.choice(["main", "import", "import"]), "factor": pr.choice(DEC_FACTORS)},
                         load(), load("file")],
        "numtype": lambda: [load(), load(numtype=pr.choice(other_types)), load()],
        "io": lambda: [load(io_fault=io_fault()), load(), {"k": "rm_cache"}, load()],
        "io_warm": lambda: [load(), load(io_fault=io_fault()), load()],
        "paths": lambda: [load(p) for p in pr.sample(["file", "lines" if layout["files"] == 1 else "file", "define",
                                                      "define_permuted", "load_definitions"], 3)],
    }
    steps = []
    for name in pr.sample(sorted(scenarios), kr.choice([1, 1, 2, 2, 3])):
        steps.extend(scenarios[name]())
    # random extra steps at random places (swarm)
    for _ in range(kr.choice([0, 0, 1, 2])):
        extra = pr.choice([torn(), {"k": "rm_cache"}, load(), load("define_permuted"),
                           {"k": "edit", "what": "main", "factor": pr.choice(DEC_FACTORS)}])
        steps.insert(pr.randint(0, len(steps)), extra)
    for i, st in enumerate(steps):
        st["id"] = i + 1
        if st.get("path") == "define_permuted":
            st["perm_seed"] = pr.getrandbits(32)
    return {"world": "loading", "prop": prop, "kind": "wellformed", "knobs": {"numtype": numtype, "layout": layout},
            "spec": spec, "program": steps, "faults": {"seed": 0, "rates": {}, "off": []}}


def gen_default(streams, prop):
    """The bundled default_en.txt + constants_en.txt, copied to the scratch disk, loaded through several
    paths and compared with what the independent reader (sim/defs_reader.py) says the files mean."""
    pr = streams.get("program")
    numtype = pr.choice(["float", "float", "Fraction", "Decimal"])
    steps = [{"k": "load", "path": pr.choice(["resource", "file", "file_cache"]), "dir": "A"}]
    for _ in range(pr.choice([1, 2, 3])):
        r = pr.random()
        if r < 0.55:
            steps.append({"k": "load", "path": pr.choice(["file_cache", "file_cache", "file", "resource"]), "dir": "A"})
        elif r < 0.75:
            steps.append({"k": "torn", "json": pr.choice(["complete", "absent", "cut"]),
                          "pickle": pr.choice(["absent", "empty", "cut", "allbut1"]), "which": pr.getrandbits(16), "cut": pr.random()})
        elif r < 0.9:
            steps.append({"k": "rm_cache"})
        else:
            steps.append({"k": "load", "path": "file_cache", "dir": "A", "numtype": pr.choice(["float", "Fraction", "Decimal"])})
    steps.append({"k": "load", "path": "file_cache", "dir": "A"})
    for i, st in enumerate(steps):
        st["id"] = i + 1
    return {"world": "loading", "prop": prop, "kind": "default", "knobs": {"numtype": numtype}, "program": steps,
            "faults": {"seed": 0, "rates": {}, "off": []}}


def gen_illformed(streams, prop):
    pr = streams.get("program")
    name = pr.choice(sorted(ILLFORMED))
    return {"world": "loading", "prop": prop, "kind": "illformed", "knobs": {"numtype": pr.choice(["float", "Fraction", "Decimal"])},
            "ill": name, "position": pr.choice(["end", "middle", "start"]),
            "paths": ["lines", "file", "file_cache", "file_cache", "define", "load_definitions"],
            "program": [], "faults": {"seed": 0, "rates": {}, "off": []}}


# =========================================================================== the world
class LoadingWorld:
    name = "loading"

    def __init__(self, prop):
        self.prop = prop

    def generate(self, streams, tier, index):
        if index % 8 == 7:
            return gen_illformed(streams, self.prop)
        if index % 10 == 3:
            return gen_default(streams, self.prop)
        return gen_case(streams, self.prop, tier)

    def run_case(self, case, col, log=None):
        run = _Run(case, col, log or Log())
        try:
            try:
                run.setup()
                run.execute()
            finally:
                run.teardown()
        except Violation as v:
            v.sig = run.signature(v)
            return v
        return None

    def sample(self, case):
        if case["kind"] == "default":
            return {"index": case["index"], "kind": "default (bundled default_en.txt + constants_en.txt)",
                    "knobs": case["knobs"], "program": case["program"]}
        if case["kind"] == "illformed":
            return {"index": case["index"], "kind": "illformed", "statement": ILLFORMED[case["ill"]][0], "paths": case["paths"]}
        import random

        files = render_files(case["spec"], random.Random(case["knobs"]["layout"]["seed"]), case["knobs"]["layout"])
        return {"index": case["index"], "kind": "wellformed", "knobs": case["knobs"], "files": files, "program": case["program"]}

    def describe(self):
        return {
            "rule": ("wellformed case = generated declarative spec (units DAG with rational factors, prefixes with symbols and "
                     "aliases, @alias, offset unit, groups with using, systems with both rule forms, contexts with relations, "
                     "parameters and redefinitions, @defaults) rendered with seeded layout (permuted lines, spacing, comments, "
                     "_ placeholders, 1-3 files connected by @import) + a sequence of process steps over one scratch disk, "
                     "each a real registry construction in a forked child (file, file+cache cold/warm, lines, lines+cache, "
                     "empty+load_definitions, empty+define() per statement in file or permuted order) interleaved with disk "
                     "events (torn cache entry, ENOSPC/EIO while writing or reading the cache, edited main file, edited "
                     "import, same text in another directory with another import, other numeric type on the same cache "
                     "folder, cache deleted). illformed case = one statement of the property's list of ill-formed kinds "
                     "inserted into a small valid file and loaded through six paths. default case (1 run in 10) = the bundled "
                     "default_en.txt + constants_en.txt copied to the scratch disk and loaded as resource / file / file+cache "
                     "(cold, warm, torn; float, Fraction, Decimal): root factor, root units and dimensionality of all 402 units, "
                     "the canonical name of all 945 spellings and all 72 prefix factors are compared with an independent reader of "
                     "the file syntax (sim/defs_reader.py: own tokenizer and evaluator). distinct_nontrivial = distinct "
                     "(step kind, loading path, cache state before the step, outcome) other than a first plain file load."),
            "trivial": lambda t: t.startswith("load|file|none|ok"),
            "real": ["pint definition parser, registry construction and read-only API from /repo", "flexparser", "flexcache",
                     "pickle and json", "the file system under a scratch directory on /dev/shm", "os.fork (one process per load)"],
            "stubs": ["pathlib.Path.open for files in the cache folder when an I/O fault is scheduled (fails after k bytes)"],
            "assumptions": ["a load under or after an injected disk fault may raise, but if it returns, its meaning must be exactly "
                            "what the current files say; no progress is demanded while a torn entry is on the disk",
                            "registries built empty and filled later are compared without the parts that @defaults decides at "
                            "construction time (default system, default group)",
                            "float registries compare with tolerance 1e-9; Fraction and Decimal registries exactly"],
        }

    def shrink(self, case):
        if case["kind"] == "illformed":
            for j in range(len(case["paths"])):
                if len(case["paths"]) > 1:
                    yield dict(case, paths=case["paths"][:j] + case["paths"][j + 1:])
            return
        prog = case["program"]
        for cand in ddmin_list(prog):
            if any(s["k"] == "load" for s in cand):
                yield dict(case, program=cand)
        if case["kind"] == "default":
            return
        lay = case["knobs"]["layout"]
        for k, v in (("files", 1), ("comments", False), ("spacing", False), ("permute", False)):
            if lay.get(k) != v:
                c = copy.deepcopy(case)
                c["knobs"]["layout"][k] = v
                yield c
        spec = case["spec"]
        for key in ("contexts", "systems", "groups", "aliases", "ddims"):
            for j in range(len(spec.get(key, ())) - 1, -1, -1):
                c = copy.deepcopy(case)
                name = c["spec"][key][j].get("name")
                del c["spec"][key][j]
                c["spec"].pop("defaults", None)
                if key == "groups":
                    for u in c["spec"]["units"]:
                        if u.get("group") == name:
                            u.pop("group")
                    for g in c["spec"]["groups"]:
                        g["using"] = [x for x in g["using"] if x != name]
                    for s in c["spec"]["systems"]:
                        s["using"] = [x for x in s["using"] if x != name]
                yield c
        if spec.get("defaults"):
            c = copy.deepcopy(case)
            c["spec"].pop("defaults")
            yield c
        for j in range(len(spec["units"]) - 1, -1, -1):
            if "dim" not in spec["units"][j]:
                c = copy.deepcopy(case)
                del c["spec"]["units"][j]
                yield c
        for idx, s in enumerate(prog):
            for k in ("io_fault", "numtype"):
                if k in s:
                    t = dict(s)
                    t.pop(k)
                    yield dict(case, program=prog[:idx] + [t] + prog[idx + 1:])


class _Run:
    def __init__(self, case, col, log):
        self.case = case
        self.col = col
        self.log = log
        self.root = None

    def setup(self):
        core.import_pint()
        self.root = tempfile.mkdtemp(prefix="verif-disk-", dir=SCRATCH_ROOT)
        self.cache = os.path.join(self.root, "cache")
        self.poisoned = False
        self.cache_state = "none"

    def teardown(self):
        if self.root:
            shutil.rmtree(self.root, ignore_errors=True)

    # ------------------------------------------------------------ process step
    def child_load(self, step, spec, directory, numtype):
        """Runs in the forked child: build a registry through the requested path, fingerprint it."""
        import pint

        T = NUMTYPES[numtype]
        num = (lambda s: int(s) if str(s).lstrip("-").isdigit() else T(str(s)))
        path = step["path"]
        main = os.path.join(directory, "main.txt")
        kw = {"non_int_type": T}
        if path.endswith("cache"):
            kw["cache_folder"] = self.cache
            if step.get("io_fault"):
                f = step["io_fault"]
                install_io_fault(self.cache, f["kind"], f["after"], getattr(errno, f["errno"]))
        if path in ("file", "file_cache"):
            ureg = pint.UnitRegistry(main, **kw)
            full = True
        elif path in ("lines", "lines_cache"):
            ureg = pint.UnitRegistry(open(main).read().split("\n"), **kw)
            full = True
        elif path == "load_definitions":
            ureg = pint.UnitRegistry(None, **kw)
            ureg.load_definitions(main)
            full = False
        else:
            ureg = pint.UnitRegistry(None, **kw)
            stmts = statements(spec)
            if path == "define_permuted":
                import random

                rng = random.Random(step["perm_seed"])
                nfree = len(spec["prefixes"]) + len([u for u in spec["units"] if not u.get("group")]) + len(spec.get("ddims", ())) + (1 if spec.get("free_ddim") else 0)
                free = stmts[:nfree]
                rng.shuffle(free)
                stmts = free + stmts[nfree:]
            for s in stmts:
                ureg.define(s)
            full = False
        return {"fp": take_fingerprint(ureg, spec, num, full), "full": full}

    def execute(self):
        if self.case["kind"] == "illformed":
            return self.execute_illformed()
        if self.case["kind"] == "default":
            return self.execute_default()
        import random

        case = self.case
        spec = copy.deepcopy(case["spec"])
        layout = case["knobs"]["layout"]
        self.specs = {"A": spec}
        self.dirs = {"A": os.path.join(self.root, "A")}
        self.write_files("A", spec, layout)
        base_numtype = case["knobs"]["numtype"]
        for step in case["program"]:
            self.col.steps += 1
            self.cur = step["id"]
            k = step["k"]
            if k == "load":
                d = step["dir"] if step["dir"] in self.dirs else "A"
                numtype = step.get("numtype", base_numtype)
                sp = self.specs[d]
                uses_cache = step["path"].endswith("cache")
                before = self.cache_state if uses_cache else "none"
                snapshot = self.list_cache() if uses_cache else None
                try:
                    res = core.fork_eval(lambda: self._child(step, sp, self.dirs[d], numtype))
                except HarnessError as e:
                    raise
                out = res["outcome"]
                faulted = bool(step.get("io_fault")) or (uses_cache and self.poisoned)
                self.col.trans("load", step["path"], before, out if out == "ok" else "raised", "fault" if faulted else "")
                self.log.ev(step["id"], "load", step["path"], d, numtype, out)
                if step.get("io_fault"):
                    self.col.fault(f"{step['io_fault']['kind']}_error")
                    if step["io_fault"]["kind"] == "write":
                        self.poisoned = self.poisoned or self.cache_changed(snapshot)
                if out != "ok":
                    if not faulted:
                        raise Violation("C10.load-raised", step["id"], {"path": step["path"], "dir": d, "numtype": numtype,
                                                                        "exc": out, "msg": res.get("msg"), "cache": before})
                    self.col.probe("load_raised_under_fault:" + out.split(":")[-1])
                    continue
                if uses_cache:
                    self.cache_state = "warm" if not self.poisoned else "poisoned"
                    self._note_entries()
                want = expected_fingerprint(sp, with_defaults=res["full"])
                got = res["fp"]
                if not res["full"]:
                    got = dict(got, default_system=None)
                    want = dict(want, default_system=None)
                for key, val in list(want["sysbase"].items()):
                    if val is None:  # fractional exponents: not asserted
                        want["sysbase"].pop(key)
                        got["sysbase"].pop(key, None)
                diff = fp_diff(want, got)
                self.col.checks += 1
                if diff:
                    raise Violation("C10.meaning", step["id"], {
                        "path": step["path"], "dir": d, "numtype": numtype, "cache_before": before,
                        "io_fault": step.get("io_fault"), "differences(section,key,expected,got)": diff[:6],
                        "n_differences": len(diff)})
            elif k == "torn":
                self.tear(step)
            elif k == "edit":
                self.edit(step, layout)
            elif k == "copy_dir":
                self.copy_dir(step, layout)
            elif k == "rm_cache":
                shutil.rmtree(self.cache, ignore_errors=True)
                self.poisoned = False
                self.cache_state = "none"
                self.col.fault("cache_deleted")
                self.log.ev(step["id"], "rm_cache")

    def _child(self, step, spec, directory, numtype):
        try:
            r = self.child_load(step, spec, directory, numtype)
            return {"outcome": "ok", "fp": r["fp"], "full": r["full"]}
        except RecursionError:
            return {"outcome": "raised:RecursionError"}
        except Exception as e:
            return {"outcome": "raised:" + exc_name(e), "msg": str(e)[:300]}

    # ------------------------------------------------------------ disk events
    def write_files(self, d, spec, layout):
        import random

        files = render_files(spec, random.Random(layout["seed"]), layout)
        root = self.dirs[d]
        for rel, text in files.items():
            p = os.path.join(root, rel)
            os.makedirs(os.path.dirname(p), exist_ok=True)
            with open(p, "w") as f:
                f.write(text)
        self.files = getattr(self, "files", {})
        self.files[d] = files

    def list_cache(self):
        out = {}
        if os.path.isdir(self.cache):
            for f in sorted(os.listdir(self.cache)):
                p = os.path.join(self.cache, f)
                out[f] = os.path.getsize(p)
        return out

    def _note_entries(self):
        now = self.list_cache()
        order = [e for e in getattr(self, "entry_order", []) if e + ".pickle" in now]
        fresh = sorted((f[:-7] for f in now if f.endswith(".pickle") and f[:-7] not in order),
                       key=lambda st: (now[st + ".pickle"], now.get(st + ".json", 0)))
        self.entry_order = order + fresh

    def cache_changed(self, snapshot):
        return self.list_cache() != (snapshot or {})

    def tear(self, step):
        """Rewrite one cache entry into a state a crash during save can leave (json is written
        first, the pickle second, nothing is synced or renamed)."""
        # The names of the entries are hashes that include the (random) scratch path: pick the victim by
        # a path-independent order - first appearance, then size - so that a seed is one execution.
        now = self.list_cache()
        self.entry_order = [e for e in getattr(self, "entry_order", []) if e + ".pickle" in now]
        fresh = sorted((f[:-7] for f in now if f.endswith(".pickle") and f[:-7] not in self.entry_order),
                       key=lambda st: (now[st + ".pickle"], now.get(st + ".json", 0)))
        self.entry_order.extend(fresh)
        entries = self.entry_order
        if not entries:
            return
        stem = entries[step["which"] % len(entries)]
        pj, pp = os.path.join(self.cache, stem + ".json"), os.path.join(self.cache, stem + ".pickle")

        def apply(path, state):
            if not os.path.exists(path):
                return
            data = open(path, "rb").read()
            if state == "absent":
                os.remove(path)
            elif state == "empty":
                open(path, "wb").close()
            elif state == "cut":
                open(path, "wb").write(data[: max(1, int(len(data) * step["cut"]))])
            elif state == "cut1":
                open(path, "wb").write(data[:1])
            elif state == "allbut1":
                open(path, "wb").write(data[:-1])

        apply(pj, step["json"])
        apply(pp, step["pickle"])
        if step["pickle"] != "absent":
            self.poisoned = True
            self.cache_state = "poisoned"
        self.col.fault("torn_cache")
        self.log.ev(step["id"], "torn", step["json"], step["pickle"])

    def edit(self, step, layout):
        """Change the meaning of a unit in the main or in an imported file (so that what was cached
        for the old text no longer applies)."""
        spec = self.specs["A"]
        files = self.files["A"]
        target_file = "main.txt"
        if step["what"] == "import" and len(files) > 1:
            target_file = sorted(f for f in files if f != "main.txt")[0]
        # pick a derived, group-less unit whose line is in that file
        for u in spec["units"]:
            if "dim" in u or u.get("group") or u.get("offset") is not None:
                continue
            line_start = u["name"] + " "
            text = files[target_file]
            lines = text.split("\n")
            for i, ln in enumerate(lines):
                if ln.startswith(line_start) and "=" in ln:
                    u["factor"] = step["factor"]
                    lines[i] = render_unit(u)
                    files[target_file] = "\n".join(lines)
                    with open(os.path.join(self.dirs["A"], target_file), "w") as f:
                        f.write(files[target_file])
                    self.col.fault("source_edited:" + ("import" if target_file != "main.txt" else "main"))
                    self.log.ev(step["id"], "edit", target_file, u["name"], step["factor"])
                    return

    def copy_dir(self, step, layout):
        """The same files in another directory, with one imported file meaning something else."""
        if "B" in self.dirs:
            return
        self.dirs["B"] = os.path.join(self.root, "B")
        shutil.copytree(self.dirs["A"], self.dirs["B"])
        specB = copy.deepcopy(self.specs["A"])
        filesB = dict(self.files["A"])
        imported = sorted(f for f in filesB if f != "main.txt")
        self.specs["B"] = specB
        self.files["B"] = filesB
        if imported:
            tf = imported[0]
            lines = filesB[tf].split("\n")
            for u in specB["units"]:
                if "dim" in u or u.get("group") or u.get("offset") is not None:
                    continue
                for i, ln in enumerate(lines):
                    if ln.startswith(u["name"] + " ") and "=" in ln:
                        u["factor"] = step["factor"]
                        lines[i] = render_unit(u)
                        filesB[tf] = "\n".join(lines)
                        with open(os.path.join(self.dirs["B"], tf), "w") as f:
                            f.write(filesB[tf])
                        self.col.fault("same_text_other_directory")
                        self.log.ev(step["id"], "copy_dir", tf, u["name"])
                        return
        self.log.ev(step["id"], "copy_dir", None)

    # ------------------------------------------------------------ the bundled definition files
    def execute_default(self):
        from ..defs_reader import NumericTable

        case = self.case
        src = os.path.join(core.PINT_PATH, "pint")
        d = os.path.join(self.root, "A")
        os.makedirs(d)
        for f in ("default_en.txt", "constants_en.txt"):
            shutil.copy(os.path.join(src, f), os.path.join(d, f))
        main = os.path.join(d, "default_en.txt")
        table = NumericTable.from_file(main)
        expected = {}
        for name in table.defs:
            f, dims, roots = table.root(name)
            expected[name] = [f, sorted([k, float(v)] for k, v in dims.items()), sorted([k, float(v)] for k, v in roots.items())]
        names_expected = dict(table.names.unit_spellings())
        prefixes_expected = {sp: table.names.prefixes[pn]["factor"] for sp, pn in table.names.prefix_spellings().items() if sp}
        for step in case["program"]:
            self.col.steps += 1
            self.cur = step["id"]
            k = step["k"]
            if k == "torn":
                self.tear(step)
                continue
            if k == "rm_cache":
                shutil.rmtree(self.cache, ignore_errors=True)
                self.poisoned = False
                self.cache_state = "none"
                self.col.fault("cache_deleted")
                continue
            numtype = step.get("numtype", case["knobs"]["numtype"])
            uses_cache = step["path"] == "file_cache"
            before = self.cache_state if uses_cache else "none"

            def child():
                import pint

                kw = {"non_int_type": NUMTYPES[numtype]}
                if uses_cache:
                    kw["cache_folder"] = self.cache
                try:
                    ureg = pint.UnitRegistry(**kw) if step["path"] == "resource" else pint.UnitRegistry(main, **kw)
                except Exception as e:
                    return {"outcome": "raised:" + exc_name(e), "msg": str(e)[:300]}
                got = {}
                for name in expected:
                    try:
                        f, u = ureg.get_root_units(name, check_nonmult=False)
                        dd = ureg.get_dimensionality(name)
                        got[name] = [float(f), sorted([k2, float(dd[k2])] for k2 in dd), sorted([k2, float(u._units[k2])] for k2 in u._units)]
                    except Exception as e:
                        got[name] = "exc:" + exc_name(e)
                names = {}
                for sp in names_expected:
                    try:
                        names[sp] = ureg.get_name(sp)
                    except Exception as e:
                        names[sp] = "exc:" + exc_name(e)
                prefixes = {}
                for sp in prefixes_expected:
                    try:
                        prefixes[sp] = float(ureg.Quantity(1, sp + "meter").to("meter").magnitude)
                    except Exception as e:
                        prefixes[sp] = "exc:" + exc_name(e)
                compat = sorted(norm_units(x)[0][0] for x in ureg.get_compatible_units("meter"))
                return {"outcome": "ok", "root": got, "names": names, "prefixes": prefixes, "compat_meter": len(compat)}

            res = core.fork_eval(child)
            out = res["outcome"]
            faulted = uses_cache and self.poisoned
            self.col.trans("load-default", step["path"], before, out if out == "ok" else "raised", numtype)
            self.log.ev(step["id"], "load-default", step["path"], numtype, out)
            if out != "ok":
                if not faulted:
                    raise Violation("C10.load-raised", step["id"], {"path": step["path"], "dir": "default", "numtype": numtype,
                                                                    "exc": out, "msg": res.get("msg"), "cache": before})
                self.col.probe("load_raised_under_fault:" + out.split(":")[-1])
                continue
            if uses_cache:
                self.cache_state = "warm" if not self.poisoned else "poisoned"
                self._note_entries()
            diffs = []
            for name, want in expected.items():
                g = res["root"].get(name)
                if isinstance(g, str) or not (core.num_close(float(g[0]), float(want[0]), 1e-9) and g[1] == want[1] and g[2] == want[2]):
                    diffs.append(["root", name, want, g])
            for sp, want in names_expected.items():
                if res["names"].get(sp) != want:
                    diffs.append(["names", sp, want, res["names"].get(sp)])
            for sp, want in prefixes_expected.items():
                g = res["prefixes"].get(sp)
                if isinstance(g, str) or not core.num_close(float(g), float(want), 1e-9):
                    diffs.append(["prefix", sp, float(want), g])
            if res["compat_meter"] < 10:
                diffs.append(["compat", "meter", ">= 10 units of length", res["compat_meter"]])
            self.col.checks += len(expected) + len(names_expected) + len(prefixes_expected)
            if diffs:
                raise Violation("C10.meaning", step["id"], {
                    "path": step["path"], "dir": "default", "numtype": numtype, "cache_before": before, "io_fault": None,
                    "differences(section,key,expected,got)": diffs[:6], "n_differences": len(diffs)})

    # ------------------------------------------------------------ ill-formed definitions
    def execute_illformed(self):
        case = self.case
        bad, touch = ILLFORMED[case["ill"]]
        base = ["kilo- = 1e3 = k-", "ua = [d0]", "ub = [d1]", "v0 = 2 * ua", "v1 = 3 * v0 / ub", "[s0] = [d0] / [d1]"]
        pos = {"end": len(base), "middle": 3, "start": 2}[case["position"]]
        if case["ill"] in ("system_replaces_non_root_unit", "system_old_unit_not_in_new", "system_with_undefined_unit",
                           "system_new_unit_not_single_root", "relation_with_unit_endpoint", "unused_context_parameter",
                           "derived_dimension_with_unit", "unknown_alias_target"):
            pos = len(base)
        lines = base[:pos] + bad + base[pos:]
        d = os.path.join(self.root, "ill")
        os.makedirs(d)
        main = os.path.join(d, "main.txt")
        open(main, "w").write("\n".join(lines) + "\n")
        T = case["knobs"]["numtype"]
        for i, path in enumerate(case["paths"]):
            self.col.steps += 1
            self.cur = i + 1

            def child():
                import pint

                kw = {"non_int_type": NUMTYPES[T]}
                if path == "file_cache":
                    kw["cache_folder"] = self.cache
                try:
                    if path == "lines":
                        u = pint.UnitRegistry(list(lines), **kw)
                    elif path in ("file", "file_cache"):
                        u = pint.UnitRegistry(main, **kw)
                    elif path == "load_definitions":
                        u = pint.UnitRegistry(None, **kw)
                        u.load_definitions(main)
                    else:
                        u = pint.UnitRegistry(list(base), **kw)
                        try:
                            u.define("\n".join(bad))
                        except Exception as e:
                            # refused - then the registry that survives must not know a system or context of
                            # that name (a rule-less system would silently answer in root units from now on)
                            head = bad[0].split()
                            if head[0] == "@system":
                                try:
                                    u.get_system(head[1], False)
                                    return ["refused-but-registered", "system", head[1], sorted(dir(u.sys))]
                                except ValueError:
                                    pass
                            if head[0].startswith("@context"):
                                name = bad[0].split(")")[-1].split()[-1] if "(" in bad[0] else head[1]
                                try:
                                    u.enable_contexts(name)
                                    u.disable_contexts()
                                    return ["refused-but-registered", "context", name]
                                except KeyError:
                                    pass
                            return "load:" + exc_name(e)
                except RecursionError:
                    return "load:RecursionError"
                except Exception as e:
                    return "load:" + exc_name(e)
                if touch:
                    try:
                        q = u.Quantity(1, touch).to_root_units()
                        return ["silently-accepted", norm_num(q.magnitude), norm_units(q)]
                    except RecursionError:
                        return "use:RecursionError"
                    except Exception as e:
                        return "use:" + exc_name(e)
                return ["silently-accepted"]

            out = core.fork_eval(child)
            self.col.checks += 1
            self.col.trans("illformed", case["ill"], path, out if isinstance(out, str) else "accepted")
            self.log.ev(i + 1, "illformed", case["ill"], path, out)
            if not isinstance(out, str):
                raise Violation("C10.illformed-accepted", i + 1, {"kind": case["ill"], "statement": bad, "path": path,
                                                                   "result": out})

    def signature(self, v):
        d = v.detail
        if v.rule == "C10.meaning":
            secs = sorted({x[0] for x in d["differences(section,key,expected,got)"]})
            return f"{v.rule}/{d['path']}/{d['cache_before']}/{'+'.join(secs)}"
        if v.rule == "C10.load-raised":
            return f"{v.rule}/{d['path']}/{d['cache']}/{d['exc']}"
        if v.rule == "C10.illformed-accepted":
            return f"{v.rule}/{d['kind']}/{d['path']}"
        return v.rule
