"""World ``systems`` (C14): unit systems and groups under histories of default-system switches
and group edits, with failing edits and forced misses of the base-unit memo.

Oracles: an independent ``GroupModel`` (sets with transitive closure; exact base-unit
substitution by correct algebra on the declared rules), conservation checks on every
base-unit result, and a pristine registry built with ``system=S`` for "takes effect
immediately".
"""

from __future__ import annotations

import copy
import json
from fractions import Fraction

from .. import core
from ..core import Collector, FaultPlan, HarnessError, Log, Violation, ddmin_list, exc_name, frac, norm_num, norm_units
from ..gen import DEC_FACTORS, RefTable, gen_general, mono_mul, mono_str, render_all, vec_key
from ..questions import ask, unit_name_set

NUMTYPES = {"float": float, "Fraction": Fraction}


# =========================================================================== generation
def gen_spec(rng):
    spec = gen_general(rng, {"contexts": False, "offset": False})
    table = RefTable(spec)
    derived = [u for u in spec["units"] if "dim" not in u]
    bod = table.base_unit_of_dim()
    # systems with well-formed rule sets: every rule replaces another root unit, the replaced
    # unit has exponent +-1 in the new unit, and no other replaced root unit occurs in it
    systems = []
    for si in range(rng.randint(1, 3)):
        rules, taken, mentioned = [], set(), set()
        cands = list(derived)
        rng.shuffle(cands)
        for d in cands:
            if len(rules) >= rng.randint(1, 3):
                break
            _, vdim = table.root_of_unit(d["name"])
            roots = {bod[dim]: e for dim, e in vdim.items()}
            if any(r in taken for r in roots):
                continue
            ones = [r for r, e in roots.items() if abs(e) == 1 and r not in mentioned]
            if not ones:
                continue
            if len(roots) == 1 and roots[ones[0]] == 1 and rng.random() < 0.5:
                rules.append([d["name"], None])
                old = ones[0]
            else:
                old = rng.choice(ones)
                rules.append([d["name"], old])
            taken.add(old)
            mentioned |= set(roots)
        using = [g["name"] for g in spec["groups"] if rng.random() < 0.6]
        systems.append({"name": f"sy{si}", "using": using, "rules": rules})
    # one more system whose rules interact: the new base unit of one rule mentions a root unit that another rule
    # of the same system replaces (e.g. centimeter for meter next to dyne for gram)
    if rng.random() < 0.15:
        scaled = [d for d in derived if len(table.root_of_unit(d["name"])[1]) == 1
                  and list(table.root_of_unit(d["name"])[1].values()) == [1]]
        rng.shuffle(scaled)
        for d1 in scaled:
            (dim1, _), = table.root_of_unit(d1["name"])[1].items()
            r1 = bod[dim1]
            seconds = []
            for d2 in derived:
                roots2 = {bod[dim]: e for dim, e in table.root_of_unit(d2["name"])[1].items()}
                if r1 in roots2:
                    seconds += [(d2["name"], r2) for r2, e in roots2.items() if r2 != r1 and abs(e) == 1]
            if seconds:
                d2, r2 = rng.choice(seconds)
                systems.append({"name": f"sy{len(systems)}", "using": [g["name"] for g in spec["groups"] if rng.random() < 0.6],
                                "rules": [[d1["name"], r1], [d2, r2]], "interacting": True})
                break
    spec["systems"] = systems
    for sy in systems:  # "<system>_<unit>" is that system's variant of the unit (ureg.sys.<system>.<unit>)
        if rng.random() < 0.5 and derived:
            d = rng.choice(derived)
            spec["units"].append({"name": f"{sy['name']}_{d['name']}", "factor": rng.choice(DEC_FACTORS), "ref": {d["name"]: 1}})
    spec.pop("defaults", None)
    if spec["groups"] and rng.random() < 0.5:
        spec["defaults"] = {"group": rng.choice(spec["groups"])["name"], "system": rng.choice(systems)["name"]}
    return spec


class ProgGen:
    def __init__(self, rng, spec):
        self.rng = rng
        self.spec = spec
        self.table = RefTable(spec)
        self.units = list(self.table.order)
        self.groups = [g["name"] for g in spec["groups"]]
        self.systems = [s["name"] for s in spec["systems"]]
        self.nid = 0
        self.nnew = 0

    def sid(self):
        self.nid += 1
        return self.nid

    def unit_str(self):
        rng = self.rng
        def one():
            u = self.table.units[rng.choice(self.units)]
            s = rng.choice([u["name"]] + ([u["symbol"]] if u.get("symbol") else []) + list(u.get("aliases", ())))
            if rng.random() < 0.2:
                s = rng.choice(["K", "kilo", "M", "milli"]) + s
            return s
        if rng.random() < 0.55:
            return one()
        m = {}
        for _ in range(rng.randint(2, 3)):
            m = mono_mul(m, {one(): rng.choice([1, 1, -1, 2])})
        return mono_str(m) if m else one()

    def names(self, pool, k):
        rng = self.rng
        return [rng.choice(pool) for _ in range(k)] if pool else []

    def step(self):
        rng = self.rng
        r = rng.random()
        sid = self.sid()
        allg = self.groups + ["root"]
        if r < 0.10:
            return {"id": sid, "k": "system", "name": rng.choice(self.systems + [None])}
        if r < 0.38:
            form = rng.choice(["to_base", "ito_base", "get_base", "get_base_sys", "get_base_sys"])
            s = {"id": sid, "k": "q_base", "form": form, "x": rng.choice(["1", "2", "3", "0.5", "12"]), "u": self.unit_str()}
            if form == "get_base_sys":
                s["system"] = rng.choice(self.systems)
            return s
        if r < 0.46:
            return {"id": sid, "k": "q_compat", "u": rng.choice(self.units), "g": rng.choice(allg + self.systems + [None])}
        if r < 0.50 and self.systems:
            name = rng.choice(self.units + ["nosuch"])
            u = self.table.units.get(name)
            if u is not None and rng.random() < 0.5:
                # another spelling of the unit: symbol, alias, plural, prefixed
                name = rng.choice([name + "s", "K" + name, "kilo" + name] + ([u["symbol"]] if u.get("symbol") else [])
                                  + list(u.get("aliases", ())))
            return {"id": sid, "k": "q_sysattr", "s": rng.choice(self.systems), "name": name}
        if r < 0.60 and self.groups:
            bad = rng.random() < 0.2
            names = self.names(self.units, rng.choice([1, 1, 2, 3]))
            if bad:
                names.insert(rng.randint(0, len(names)), "absent_unit")
            return {"id": sid, "k": rng.choice(["add_units", "remove_units", "remove_units"]), "g": rng.choice(self.groups),
                    "names": names}
        if r < 0.72 and self.groups:
            names = self.names(self.groups, rng.choice([1, 1, 2]))
            if rng.random() < 0.15:
                names.insert(rng.randint(0, len(names)), "nosuchgroup")
            return {"id": sid, "k": rng.choice(["add_groups", "add_groups", "remove_groups"]), "g": rng.choice(self.groups),
                    "names": names}
        if r < 0.78 and self.systems and self.groups:
            return {"id": sid, "k": rng.choice(["sys_add_groups", "sys_remove_groups"]), "s": rng.choice(self.systems),
                    "names": self.names(self.groups + ["root"], rng.choice([1, 2]))}
        if r < 0.82:
            self.nnew += 1
            name = f"ng{self.nnew}"
            self.groups.append(name)
            return {"id": sid, "k": "new_group", "name": name}
        if r < 0.86:
            self.nnew += 1
            name = f"dg{self.nnew}"
            if getattr(self, "future_groups", None):
                name = self.future_groups.pop(0)
            unit = f"xg{self.nnew}"
            s = {"id": sid, "k": "def_group", "name": name, "using": self.names(self.groups, rng.choice([0, 1])),
                 "unit": {"name": unit, "factor": rng.choice(DEC_FACTORS), "ref": {rng.choice(self.units): 1}}}
            self.groups.append(name)
            self.units.append(unit)
            self.table.add_unit(dict(s["unit"]))
            return s
        if r < 0.90:
            self.nnew += 1
            unit = f"xu{self.nnew}"
            s = {"id": sid, "k": "define", "unit": {"name": unit, "factor": rng.choice(DEC_FACTORS),
                                                    "ref": {rng.choice(self.units): 1}}}
            self.units.append(unit)
            self.table.add_unit(dict(s["unit"]))
            return s
        if r < 0.93 and self.groups:
            self.nnew += 1
            name = f"ds{self.nnew}"
            self.systems.append(name)
            using = self.names(self.groups, rng.choice([0, 1, 2]))
            if rng.random() < 0.4:
                # a group that does not exist yet: the system picks its units up once it is created
                self.nnew += 1
                future = f"dg{self.nnew}"
                using.append(future)
                self.future_groups = getattr(self, "future_groups", []) + [future]
            return {"id": sid, "k": "def_system", "name": name, "using": using, "rules": []}
        return {"id": sid, "k": "q_members"}


# =========================================================================== reference model
class GroupModel:
    """Groups as sets with transitive closure; systems as unions of groups plus replacement rules."""

    def __init__(self, spec, table: RefTable):
        self.table = table
        self.groups = {"root": {"units": set(), "using": set()}}
        for g in spec["groups"]:
            self.groups[g["name"]] = {"units": set(), "using": set(g["using"])}
            self.groups["root"]["using"].add(g["name"])
        for u in spec["units"]:
            self.groups["root"]["units"].add(u["name"])
            if u.get("group"):
                self.groups[u["group"]]["units"].add(u["name"])
        self.systems = {}
        for s in spec["systems"]:
            self.systems[s["name"]] = {"using": set(s["using"]) or {"root"}, "rules": [list(r) for r in s["rules"]]}
        self.default_group = (spec.get("defaults") or {}).get("group")
        if self.default_group:
            grouped = set()
            for n, g in self.groups.items():
                if n != "root":
                    grouped |= self.members(n)
            self.groups[self.default_group]["units"] |= self.groups["root"]["units"] - grouped
        self.default_system = (spec.get("defaults") or {}).get("system")

    def members(self, g, _seen=None):
        _seen = _seen or set()
        if g in _seen or g not in self.groups:
            return set()
        _seen.add(g)
        out = set(self.groups[g]["units"])
        for h in self.groups[g]["using"]:
            out |= self.members(h, _seen)
        return out

    def uses(self, g, target):
        """does g (transitively) use target?"""
        todo, seen = list(self.groups[g]["using"]), set()
        while todo:
            h = todo.pop()
            if h == target:
                return True
            if h in seen or h not in self.groups:
                continue
            seen.add(h)
            todo.extend(self.groups[h]["using"])
        return False

    def sys_members(self, s):
        out = set()
        for g in self.systems[s]["using"]:
            out |= self.members(g)
        return out

    def substitution(self, s):
        """root unit -> monomial of (new unit and other root units), by correct algebra:
        new = K * old**a * prod(o_i**b_i)  =>  old = new**(1/a) * prod(o_i**(-b_i/a))."""
        out = {}
        bod = self.table.base_unit_of_dim()
        for new, old in self.systems[s]["rules"]:
            _, vdim = self.table.root_of_unit(new)
            roots = {bod[d]: e for d, e in vdim.items()}
            if old is None:
                (old, a), = roots.items()
            a = roots[old]
            m = {new: Fraction(1, a)}
            for o, b in roots.items():
                if o != old:
                    m[o] = Fraction(-b, a)
            out[old] = m
        return out

    def expected_base(self, mono, s):
        """(factor, units) such that 1*mono == factor*units, units being the system's base units."""
        f, dims = self.table.root(mono)
        bod = self.table.base_unit_of_dim()
        rootmono = {bod[d]: e for d, e in dims.items()}
        if s is None:
            return f, rootmono
        sub = self.substitution(s)
        dest = {}
        for r, e in rootmono.items():
            if r in sub:
                for k, x in sub[r].items():
                    dest[k] = dest.get(k, 0) + x * e
            else:
                dest[r] = dest.get(r, 0) + e
        dest = {k: v for k, v in dest.items() if v != 0}
        if any(Fraction(v).denominator != 1 for v in dest.values()):
            return None, dest
        dest = {k: int(v) for k, v in dest.items()}
        fd, _ = self.table.root(dest)
        return f / fd, dest

    def interacting(self, s):
        """Does the new unit of one rule mention a root unit that another rule of the system replaces?"""
        sub = self.substitution(s)
        return any(o in sub for old, m in sub.items() for o in m if o != old)

    def allowed_units(self, s):
        """names that may appear in a base-unit result under system s."""
        bod = self.table.base_unit_of_dim()
        roots = set(bod.values())
        if s is None:
            return roots
        sub = self.substitution(s)
        return (roots - set(sub)) | {new for new, _ in self.systems[s]["rules"]}


# =========================================================================== the world
class SystemsWorld:
    name = "systems"

    def __init__(self, prop):
        self.prop = prop

    def generate(self, streams, tier, index):
        kr = streams.get("knobs")
        if index % 8 == 5:
            # the bundled registry: a chunk of the seeded shuffle of all (unit, system) pairs
            pr = streams.get("program")
            fr = streams.get("faults")
            return {"world": "systems", "prop": self.prop, "kind": "default", "chunk": index // 8,
                    "knobs": {"numtype": kr.choice(["float", "float", "Fraction"]), "look_rate": 1.0},
                    "prog_seed": pr.getrandbits(32),
                    "faults": {"seed": fr.getrandbits(32), "rates": {"miss:base_units": fr.choice([0.0, 0.3, 1.0])}, "off": []}}
        spec = gen_spec(streams.get("world"))
        knobs = {"numtype": kr.choice(["float", "Fraction", "Fraction"]),
                 "look_rate": kr.choice([0.1, 0.25, 0.5, 1.0])}
        pg = ProgGen(streams.get("program"), spec)
        size = kr.choice([6, 10, 16, 24, 40])
        program = [pg.step() for _ in range(size)]
        fr = streams.get("faults")
        rates = {}
        if fr.random() < 0.6:
            rates["miss:base_units"] = fr.choice([0.2, 0.5, 1.0])
            if fr.random() < 0.5:
                rates["miss:root_units"] = fr.choice([0.2, 1.0])
        return {"world": "systems", "prop": self.prop, "knobs": knobs, "spec": spec, "program": program,
                "faults": {"seed": fr.getrandbits(32), "rates": rates, "off": []}}

    def run_case(self, case, col, log=None):
        if case.get("kind") == "default":
            try:
                _DefaultRun(case, col, log or Log()).execute()
            except Violation as v:
                v.sig = f"{v.rule}/default"
                return v
            return None
        run = _Run(case, col, log or Log())
        try:
            run.setup()
            run.execute()
        except Violation as v:
            v.sig = run.signature(v)
            return v
        return None

    def sample(self, case):
        if case.get("kind") == "default":
            return {"index": case["index"], "kind": "default registry", "chunk": case["chunk"],
                    "first_steps": _default_program(case)[:10]}
        return {"index": case["index"], "knobs": case["knobs"], "definitions": render_all(case["spec"]),
                "program": case["program"], "fault_plan": case["faults"]}

    def describe(self):
        return {
            "rule": ("one case = generated definitions (units, group graph with 'using', systems with both rule forms, "
                     "optional @defaults) + a history of default_system switches, base-unit questions in four forms, "
                     "membership / restricted-compatible-units / system-attribute questions, group and system edits "
                     "(add/remove units and groups, failing edits with the bad element at position k, groups, systems and "
                     "units created at run time) + forced misses of the base-unit memo. After every step all group and "
                     "system memberships are compared with a set model; base-unit results are compared with exact "
                     "algebra on the declared rules and with a pristine registry built with system=S. One run in eight uses the "
                     "bundled registry instead: a chunk of the seeded shuffle of all (multiplicative unit, system) pairs (392 x 8, "
                     "covered several times per batch) asked in four forms between default_system switches, compared with an "
                     "independent reader of default_en.txt (sim/defs_reader.py: own evaluator, own rule inversion), plus all "
                     "bundled group and system memberships. "
                     "distinct_nontrivial = distinct (step kind, question form or number of arguments, outcome, default system set?, #edits so far (cap 3), more than three groups?, more than one system?) "
                     "with at least one earlier state change."),
            "trivial": lambda t: "|0|" in t and t.count("|") >= 6 and t.split("|")[4] == "0",
            "real": ["pint (group, system, plain, context facets) from the working tree of /repo", "flexparser"],
            "stubs": ["base-unit and root-unit memo tables wrapped in FlakyDict (forced misses)"],
            "assumptions": ["sampling, not enumeration",
                            "generated systems are well-formed: each rule replaces a different root unit with exponent +-1 in "
                            "the new unit; in 15 % of the worlds one further system has two interacting rules (the new unit of one "
                            "mentions a root unit the other replaces), where open finding R35 is recognised by its exact shape",
                            "after a failing multi-argument edit the model is re-synchronised from the public accessors "
                            "(non_inherited_unit_names, is_used_group); the statement 'nothing changed' is asserted only for "
                            "single-argument edits"],
        }

    def shrink(self, case):
        if case.get("kind") == "default":
            prog = case.get("program") or _default_program(case)
            for cand in ddmin_list(prog):
                yield dict(case, program=cand)
            if case["faults"]["rates"]:
                yield dict(case, faults=dict(case["faults"], rates={}))
            return
        prog = case["program"]
        for cand in ddmin_list(prog):
            c = dict(case)
            c["program"] = cand
            yield c
        if case["faults"]["rates"]:
            c = dict(case)
            c["faults"] = dict(case["faults"], rates={})
            yield c
        spec = case["spec"]
        for key in ("systems", "groups", "aliases", "ddims"):
            for j in range(len(spec.get(key, ())) - 1, -1, -1):
                c = copy.deepcopy(case)
                name = c["spec"][key][j].get("name")
                del c["spec"][key][j]
                if key == "groups":
                    for u in c["spec"]["units"]:
                        if u.get("group") == name:
                            u.pop("group")
                    for g in c["spec"]["groups"]:
                        g["using"] = [x for x in g["using"] if x != name]
                    for s in c["spec"]["systems"]:
                        s["using"] = [x for x in s["using"] if x != name]
                c["spec"].pop("defaults", None) if key in ("systems", "groups") else None
                yield c
        if spec.get("defaults"):
            c = copy.deepcopy(case)
            c["spec"].pop("defaults")
            yield c
        for j in range(len(spec["units"]) - 1, -1, -1):
            if "dim" not in spec["units"][j]:
                c = copy.deepcopy(case)
                del c["spec"]["units"][j]
                yield c
        for idx, s in enumerate(prog):
            if s.get("names") and len(s["names"]) > 1:
                for j in range(len(s["names"])):
                    yield dict(case, program=prog[:idx] + [dict(s, names=s["names"][:j] + s["names"][j + 1:])] + prog[idx + 1:])


class _EndRun(Exception):
    pass


class _Run:
    def __init__(self, case, col, log):
        self.case = case
        self.col = col
        self.log = log
        self.spec = case["spec"]
        self.plan = FaultPlan(case["faults"])
        self.exact = case["knobs"]["numtype"] == "Fraction"
        self.nedits = 0
        self.runtime_lines = []
        self.uncertain = set()  # groups whose direct 'using' set is not known after a failed multi-argument edit

    def num(self, s):
        s = str(s)
        if s.lstrip("-").isdigit():
            return int(s)
        return Fraction(s) if self.exact else float(s)

    def setup(self):
        pint = core.import_pint()
        self.pint = pint
        self.lines = render_all(self.spec)
        self.T = NUMTYPES[self.case["knobs"]["numtype"]]
        try:
            self.ureg = pint.UnitRegistry(list(self.lines), non_int_type=self.T)
        except Exception as e:
            raise HarnessError(f"world does not load: {type(e).__name__}: {e}")
        self.table = RefTable(self.spec)
        self.model = GroupModel(self.spec, self.table)
        self.cur_system = ("unset", self.model.default_system)
        core.install_flaky(self.ureg, self.plan, self.col)
        self.cur = 0
        self.check_members("setup")

    # ------------------------------------------------------------ invariants
    def system_now(self):
        return self.cur_system[1]

    def check_members(self, why, everything=False):
        """Compare memberships with the model. Which groups and systems are looked at after a step
        is itself part of the explored history: reading a membership (re)fills its memo, so
        looking at everything after every step would keep all memos warm and hide invalidation
        defects that need a memo to be cold on one level and warm on another."""
        ureg, model = self.ureg, self.model
        rate = self.case["knobs"].get("look_rate", 1.0)
        seed = self.case["faults"]["seed"]

        def look(name):
            return everything or rate >= 1.0 or core.unit_float(seed, "look", self.cur, name) < rate

        for g in model.groups:
            if not look(g):
                continue
            self.col.checks += 1
            try:
                got = set(ureg.get_group(g, False).members)
            except Exception as e:
                raise Violation("C14.members", self.cur, {"group": g, "exc": type(e).__name__, "when": why})
            want = model.members(g)
            if got != want:
                raise Violation("C14.members", self.cur, {
                    "group": g, "when": why, "missing": sorted(want - got), "unexpected": sorted(got - want)})
        for s in model.systems:
            if not look("sys:" + s):
                continue
            self.col.checks += 1
            got = set(ureg.get_system(s, False).members)
            want = model.sys_members(s)
            if got != want:
                raise Violation("C14.sysmembers", self.cur, {
                    "system": s, "when": why, "missing": sorted(want - got), "unexpected": sorted(got - want)})
            got_dir = set(dir(getattr(ureg.sys, s)))
            if got_dir != want:
                raise Violation("C14.sysmembers", self.cur, {
                    "system": s, "when": why + ":dir", "missing": sorted(want - got_dir), "unexpected": sorted(got_dir - want)})

    # ------------------------------------------------------------ interpreter
    def execute(self):
        try:
            for s in self.case["program"]:
                self.step(s)
            self.cur = "end"
            self.check_members("end", everything=True)
        except _EndRun:
            pass

    def step(self, s):
        self.col.steps += 1
        self.cur = s["id"]
        self.plan.at_step(s["id"])
        core.install_flaky(self.ureg, self.plan, self.col)
        k = s["k"]
        out = getattr(self, "do_" + k)(s)
        self.col.trans(k, s.get("form") or len(s.get("names", ())) or "", out, self.system_now() is not None, min(self.nedits, 3),
                       len(self.model.groups) > 3, len(self.model.systems) > 1)
        self.log.ev(s["id"], k, out)
        self.plan.at_step(f"inv{s['id']}")
        self.check_members(k)

    def do_system(self, s):
        self.ureg.default_system = s["name"]
        self.cur_system = ("set", s["name"])
        self.nedits += 1
        self.col.fault("state_change:default_system")
        return "ok"

    def do_q_members(self, s):
        return "ok"

    def do_q_base(self, s):
        ureg, model = self.ureg, self.model
        form = s["form"]
        x = self.num(s["x"])
        system = s.get("system") if form == "get_base_sys" else self.system_now()
        try:
            if form == "to_base":
                r = ureg.Quantity(x, s["u"]).to_base_units()
                got = (r.magnitude, r._units)
            elif form == "ito_base":
                r = ureg.Quantity(x, s["u"])
                r.ito_base_units()
                got = (r.magnitude, r._units)
            elif form == "get_base":
                f, u = ureg.get_base_units(s["u"])
                got = (f, u._units)
            else:
                f, u = ureg.get_base_units(s["u"], system=system)
                got = (f, u._units)
        except Exception as e:
            got = e
        # expectation by exact algebra
        try:
            mono = self.parse_mono(s["u"])
        except KeyError:
            mono = None
        if mono is None:
            if not isinstance(got, Exception):
                raise Violation("C14.base", s["id"], {"form": form, "u": s["u"], "system": system,
                                                      "expected": "an error (undefined unit)", "got": "a result"})
            return "undefined"
        ef, eunits = model.expected_base(mono, system)
        if ef is None:
            return "fractional"  # not generated (well-formed systems), kept for robustness
        if form in ("to_base", "ito_base"):
            ef = ef * frac(s["x"])
        self.col.checks += 1
        if isinstance(got, Exception):
            raise Violation("C14.base", s["id"], {"form": form, "x": s["x"], "u": s["u"], "system": system,
                                                  "expected": [norm_num(ef), sorted(eunits.items())],
                                                  "got": ["exc", type(got).__name__]})
        gf, gu = got
        gunits = {n: gu[n] for n in gu}
        ok = core.num_close(norm_num(gf), norm_num(ef)) and \
            sorted((n, norm_num(e)) for n, e in gunits.items()) == sorted((n, norm_num(e)) for n, e in eunits.items())
        allowed = model.allowed_units(system)
        left = set(gunits) - allowed
        if ok and left and system is not None and left <= set(model.substitution(system)) and model.interacting(system):
            # exactly the recorded shape of finding R35: value and dimension are right, but a root unit that the
            # system replaces is left over because the replacement is made in one pass
            if "R35" in core.open_findings():
                self.col.probe("known_finding:R35")
                return "known:R35"
            raise Violation("C14.base", s["id"], {
                "form": form, "x": s["x"], "u": s["u"], "system": system, "shape": "replaced-root-left",
                "got": [norm_num(gf), sorted((n, norm_num(e)) for n, e in gunits.items())],
                "left_over": sorted(left), "rules": model.systems[system]["rules"]})
        if not ok or not set(gunits) <= allowed:
            raise Violation("C14.base", s["id"], {
                "form": form, "x": s["x"], "u": s["u"], "system": system,
                "expected": [norm_num(ef), sorted((n, norm_num(e)) for n, e in eunits.items())],
                "got": [norm_num(gf), sorted((n, norm_num(e)) for n, e in gunits.items())],
                "allowed_units": sorted(allowed)})
        # idempotence and value conservation through the public API
        try:
            q2 = ureg.Quantity(gf, ureg.UnitsContainer(gunits))
            if form == "get_base_sys":
                f3, u3 = ureg.get_base_units(ureg.UnitsContainer(gunits), system=system)
                again = (gf * f3, u3._units)
            else:
                r3 = q2.to_base_units()
                again = (r3.magnitude, r3._units)
            back = q2.to_root_units()
            src = ureg.Quantity(x if form in ("to_base", "ito_base") else 1, s["u"]).to_root_units()
        except Exception as e:
            raise Violation("C14.base-idempotent", s["id"], {"form": form, "u": s["u"], "system": system,
                                                             "exc": type(e).__name__})
        self.col.checks += 2
        if not (core.num_close(norm_num(again[0]), norm_num(gf)) and norm_units(again[1]) == norm_units(gu)):
            raise Violation("C14.base-idempotent", s["id"], {
                "form": form, "u": s["u"], "system": system, "first": [norm_num(gf), norm_units(gu)],
                "second": [norm_num(again[0]), norm_units(again[1])]})
        if not (core.num_close(norm_num(back.magnitude), norm_num(src.magnitude)) and norm_units(back) == norm_units(src)):
            raise Violation("C14.base-value", s["id"], {
                "form": form, "u": s["u"], "system": system, "root_of_input": [norm_num(src.magnitude), norm_units(src)],
                "root_of_result": [norm_num(back.magnitude), norm_units(back)]})
        # takes effect immediately: a pristine registry built with this system gives the same answer
        if form != "get_base_sys" and self.cur_system[0] == "set":
            fresh = self.pint.UnitRegistry(list(self.lines) + self.runtime_lines, non_int_type=self.T)
            fresh.default_system = system
            a = ask(self.ureg, ["base", s["u"]], self.num)
            b = ask(fresh, ["base", s["u"]], self.num)
            self.col.checks += 1
            if not core.answers_equal(a, b):
                raise Violation("C14.immediate", s["id"], {"u": s["u"], "system": system, "live": a, "pristine": b})
        return "ok"

    def parse_mono(self, ustr):
        """The generator's unit strings back into a monomial of spellings (own tiny reader)."""
        m = {}
        sign = 1
        toks = ustr.replace("**", "^").split()
        i = 0
        while i < len(toks):
            t = toks[i]
            if t == "*":
                sign = 1
            elif t == "/":
                sign = -1
            elif t == "^":
                pass
            else:
                e = 1
                if i + 2 < len(toks) + 0 and i + 1 < len(toks) and toks[i + 1] == "^":
                    e = int(toks[i + 2])
                    i += 2
                if t != "1":
                    self.table.resolve(t)  # KeyError if unknown
                    m = mono_mul(m, {t: e * sign})
            i += 1
        return m

    def do_q_compat(self, s):
        ureg, model = self.ureg, self.model
        g = s["g"]
        try:
            got = set(unit_name_set(ureg.get_compatible_units(s["u"], g) if g is not None else ureg.get_compatible_units(s["u"])))
        except Exception as e:
            got = e
        _, d = self.table.root_of_unit(s["u"])
        same = {n for n in self.table.order if vec_key(self.table.root_of_unit(n)[1]) == vec_key(d)}
        eff = g if g is not None else self.system_now()
        if eff is None:
            want = same
        elif eff in model.systems:
            want = same & model.sys_members(eff)
        elif eff in model.groups:
            want = same & model.members(eff)
        else:
            want = None
        self.col.checks += 1
        if want is None:
            if not isinstance(got, Exception):
                raise Violation("C14.compat", s["id"], {"u": s["u"], "group": g, "expected": "an error", "got": sorted(got)})
            return "unknown-group"
        if isinstance(got, Exception):
            raise Violation("C14.compat", s["id"], {"u": s["u"], "group": g, "expected": sorted(want),
                                                    "got": ["exc", type(got).__name__]})
        # units defined at run time are invisible to get_compatible_units (finding R6, property C13)
        runtime = self.runtime_units()
        if got - runtime != want - runtime or not (got & runtime) <= want:
            raise Violation("C14.compat", s["id"], {"u": s["u"], "group": g, "effective": eff,
                                                    "missing": sorted(want - got - runtime), "unexpected": sorted(got - want)})
        return "ok"

    def runtime_units(self):
        return {l.split("=")[0].strip() for l in self.runtime_lines if not l.startswith("@")} | self._group_defined

    _group_defined = frozenset()

    def do_q_sysattr(self, s):
        ureg = self.ureg
        try:
            got = norm_units(getattr(getattr(ureg.sys, s["s"]), s["name"]))
        except Exception as e:
            got = type(e).__name__
        # the system's variant of the name if the registry reads "<system>_<name>" as a unit (any spelling the
        # parser accepts: plural, prefix, alias), else the plain name
        from ..names_model import NamesTable

        nt = getattr(self, "_nt", None)
        if nt is None or self._nt_n != len(self.table.order):
            nt = self._nt = NamesTable.from_spec({"prefixes": self.spec["prefixes"], "units": [self.table.units[n] for n in self.table.order]})
            self._nt_n = len(self.table.order)
        want = "UndefinedUnitError"
        for cand in (s["s"] + "_" + s["name"], s["name"]):
            rs = nt.readings(cand, True)
            if rs:
                want = sorted({json.dumps([[nt.canonical(r), 1]]) for r in rs})
                break
        self.col.checks += 1
        ok = got == want if isinstance(want, str) else json.dumps(got) in want
        if not ok:
            raise Violation("C14.sysattr", s["id"], {"system": s["s"], "name": s["name"], "expected": want, "got": got})
        return "ok"

    # ---- edits
    def _edit(self, s, fn, apply_one, resync, single_ok=True):
        """Run a multi-argument edit; mirror it in the model."""
        names = s["names"]
        try:
            fn(*names)
            failed = None
        except Exception as e:
            failed = e
        self.nedits += 1
        if s.get("g") in self.uncertain:
            # the model does not know this group's direct edges: follow pint's public view, assert nothing here
            resync()
            return "resync"
        if failed is None:
            for n in names:
                if not apply_one(n):
                    raise Violation("C14.edit-accepted", s["id"], {"edit": s["k"], "names": names, "bad": n})
            self.col.fault("state_change:" + s["k"])
            return "ok"
        self.col.fault("bad_edit")
        # which element had to fail?
        if len(names) == 1:
            if apply_one(names[0], dry=True):
                raise Violation("C14.edit-raised", s["id"], {"edit": s["k"], "names": names, "exc": type(failed).__name__})
            return "failed:" + type(failed).__name__  # nothing may have changed: check_members follows
        if "groups" not in s["k"]:
            resync()  # own units have a public accessor
            return "failed-multi:" + type(failed).__name__
        # Group edges have no public accessor. The property does not say whether a failing
        # multi-argument edit applies the arguments before the rejected one: accept either,
        # whichever the (public) membership now shows; if both look the same, stop this run.
        mg = self.model.groups[s["g"]]
        before = set(mg["using"])
        for n in names:
            if not apply_one(n):
                break
        prefix_applied = set(mg["using"])
        got = set(self.ureg.get_group(s["g"], False).members)
        mg["using"] = prefix_applied
        m_prefix = self.model.members(s["g"])
        mg["using"] = before
        m_none = self.model.members(s["g"])
        if prefix_applied != before and m_prefix == m_none:
            self.col.probe("ambiguous_partial_edit")
            raise _EndRun()
        if got == m_prefix:
            mg["using"] = prefix_applied
        elif got == m_none:
            mg["using"] = before
        else:
            raise Violation("C14.members", s["id"], {
                "group": s["g"], "when": s["k"] + ":failed-part-way", "got": sorted(got),
                "if_none_applied": sorted(m_none), "if_prefix_applied": sorted(m_prefix)})
        return "failed-multi:" + type(failed).__name__

    def do_add_units(self, s):
        grp = self.ureg.get_group(s["g"], False)
        mg = self.model.groups[s["g"]]

        def apply_one(n, dry=False):
            if not dry:
                mg["units"].add(n)
            return True

        return self._edit(s, grp.add_units, apply_one, lambda: self._resync_units(s["g"]))

    def do_remove_units(self, s):
        grp = self.ureg.get_group(s["g"], False)
        mg = self.model.groups[s["g"]]

        def apply_one(n, dry=False):
            if n not in mg["units"]:
                return False
            if not dry:
                mg["units"].discard(n)
            return True

        return self._edit(s, grp.remove_units, apply_one, lambda: self._resync_units(s["g"]))

    def _resync_units(self, g):
        self.model.groups[g]["units"] = set(self.ureg.get_group(g, False).non_inherited_unit_names)

    def _resync_using(self, g, candidates):
        """Direct use cannot be read back through the public API, transitive use can
        (is_used_group): take pint's view for the groups named in the failed edit."""
        grp = self.ureg.get_group(g, False)
        mg = self.model.groups[g]
        for n in candidates:
            if n not in self.model.groups or n == g:
                continue
            if grp.is_used_group(n):
                mg["using"].add(n)
            else:
                mg["using"].discard(n)

    def do_add_groups(self, s):
        grp = self.ureg.get_group(s["g"], False)
        model = self.model
        mg = model.groups[s["g"]]

        def apply_one(n, dry=False):
            if n not in model.groups:
                return False
            if n == s["g"] or model.uses(n, s["g"]):
                return False  # cycle
            if not dry:
                mg["using"].add(n)
            return True

        return self._edit(s, grp.add_groups, apply_one, lambda: self._resync_using(s["g"], s["names"]))

    def do_remove_groups(self, s):
        grp = self.ureg.get_group(s["g"], False)
        mg = self.model.groups[s["g"]]

        def apply_one(n, dry=False):
            if n not in mg["using"]:
                return False
            if not dry:
                mg["using"].discard(n)
            return True

        return self._edit(s, grp.remove_groups, apply_one, lambda: self._resync_using(s["g"], s["names"]))

    def do_sys_add_groups(self, s):
        self.ureg.get_system(s["s"], False).add_groups(*s["names"])
        self.model.systems[s["s"]]["using"] |= set(s["names"])
        self.nedits += 1
        self.col.fault("state_change:sys_add_groups")
        return "ok"

    def do_sys_remove_groups(self, s):
        self.ureg.get_system(s["s"], False).remove_groups(*s["names"])
        self.model.systems[s["s"]]["using"] -= set(s["names"])
        self.nedits += 1
        self.col.fault("state_change:sys_remove_groups")
        return "ok"

    def do_new_group(self, s):
        self.ureg.get_group(s["name"])
        self.model.groups[s["name"]] = {"units": set(), "using": set()}
        self.model.groups["root"]["using"].add(s["name"])
        self.runtime_lines += [f"@group {s['name']}", "@end"]
        self.nedits += 1
        return "ok"

    def do_def_group(self, s):
        u = s["unit"]
        using = [g for g in s["using"] if g in self.model.groups]
        head = f"@group {s['name']}" + (" using " + ", ".join(using) if using else "")
        text = "\n".join([head, f"    {u['name']} = {u['factor']} * {mono_str(u['ref'], one='1')}", "@end"])
        try:
            self.ureg.define(text)
        except Exception as e:
            raise Violation("C14.define-raised", s["id"], {"text": text, "exc": type(e).__name__, "msg": str(e)[:200]})
        self.model.groups[s["name"]] = {"units": {u["name"]}, "using": set(using)}
        self.model.groups["root"]["using"].add(s["name"])
        self.model.groups["root"]["units"].add(u["name"])
        self.table.add_unit(dict(u))
        self._group_defined = set(self._group_defined) | {u["name"]}
        self.runtime_lines += text.split("\n")
        self.nedits += 1
        return "ok"

    def do_define(self, s):
        u = s["unit"]
        line = f"{u['name']} = {u['factor']} * {mono_str(u['ref'], one='1')}"
        try:
            self.ureg.define(line)
        except Exception as e:
            raise Violation("C14.define-raised", s["id"], {"text": line, "exc": type(e).__name__, "msg": str(e)[:200]})
        self.model.groups["root"]["units"].add(u["name"])
        self.table.add_unit(dict(u))
        self.runtime_lines.append(line)
        self.nedits += 1
        return "ok"

    def do_def_system(self, s):
        using = list(dict.fromkeys(s["using"]))  # a group named here may be created later
        head = f"@system {s['name']}" + (" using " + ", ".join(using) if using else "")
        text = "\n".join([head, "@end"])
        try:
            self.ureg.define(text)
        except Exception as e:
            raise Violation("C14.define-raised", s["id"], {"text": text, "exc": type(e).__name__, "msg": str(e)[:200]})
        self.model.systems[s["name"]] = {"using": set(using) or {"root"}, "rules": []}
        self.runtime_lines += text.split("\n")
        self.nedits += 1
        return "ok"

    def signature(self, v):
        d = v.detail
        if v.rule in ("C14.members", "C14.sysmembers"):
            return f"{v.rule}/{d.get('when')}/{'missing' if d.get('missing') else ''}{'unexpected' if d.get('unexpected') else ''}"
        if v.rule == "C14.base" and d.get("shape"):
            return f"{v.rule}/interacting-rules/{d['shape']}"
        if v.rule == "C14.base":
            g = d.get("got")
            return f"{v.rule}/{d.get('form')}/{'exc' if g and g[0] == 'exc' else 'value'}"
        return v.rule


# =========================================================================== the bundled registry
DEFAULT_CHUNK = 100
_DEF = {}


def _default_model():
    if "m" not in _DEF:
        import os

        from ..defs_reader import DefaultSystemsModel, NumericTable

        t = NumericTable.from_file(os.path.join(core.PINT_PATH, "pint", "default_en.txt"))
        _DEF["m"] = DefaultSystemsModel(t)
    return _DEF["m"]


def _default_program(case):
    if case.get("program") is not None:
        return case["program"]
    import random

    m = _default_model()
    units = [n for n in m.t.defs if m.t.names.units[n]["mult"]]
    systems = sorted(m.systems) + [None]
    pairs = [(u, sy) for u in units for sy in systems]
    npass, k = divmod(case["chunk"] * DEFAULT_CHUNK, len(pairs))
    random.Random(core.derive(case.get("seed", 0), "C14-pairs", npass)).shuffle(pairs)
    chunk = (pairs + pairs)[k:k + DEFAULT_CHUNK]
    rng = random.Random(case["prog_seed"])
    prog = []
    cur = "mks"
    for i, (u, sy) in enumerate(chunk):
        form = rng.choice(["to_base", "ito_base", "get_base", "get_base_sys", "get_base_sys"])
        if form != "get_base_sys" and sy != cur:
            prog.append({"id": len(prog) + 1, "k": "system", "name": sy})
            cur = sy
        st = {"id": len(prog) + 1, "k": "q_base", "form": form, "u": u, "x": rng.choice(["1", "3", "0.5"])}
        if form == "get_base_sys":
            st["system"] = sy
        prog.append(st)
        if rng.random() < 0.1:
            prog.append(dict(rng.choice([p for p in prog if p["k"] == "q_base"]), id=len(prog) + 1))
    return prog


class _DefaultRun:
    def __init__(self, case, col, log):
        self.case, self.col, self.log = case, col, log
        self.plan = FaultPlan(case["faults"])

    def execute(self):
        pint = core.import_pint()
        m = _default_model()
        T = NUMTYPES[self.case["knobs"]["numtype"]]
        num = lambda x: int(x) if str(x).isdigit() else T(str(x))
        ureg = pint.UnitRegistry(non_int_type=T)
        core.install_flaky(ureg, self.plan, self.col)
        cur = "mks"
        self.check_members(ureg, m, "start")
        for st in _default_program(self.case):
            self.col.steps += 1
            self.plan.at_step(st["id"])
            core.install_flaky(ureg, self.plan, self.col)
            if st["k"] == "system":
                ureg.default_system = st["name"]
                cur = st["name"]
                self.col.fault("state_change:default_system")
                continue
            form, u = st["form"], st["u"]
            # system=None means "the default system", not "no system"
            system = (st.get("system") or cur) if form == "get_base_sys" else cur
            try:
                if form == "to_base":
                    r = ureg.Quantity(num(st["x"]), u).to_base_units()
                    gf, gu = r.magnitude, r._units
                elif form == "ito_base":
                    r = ureg.Quantity(num(st["x"]), u)
                    r.ito_base_units()
                    gf, gu = r.magnitude, r._units
                elif form == "get_base":
                    gf, uu = ureg.get_base_units(u)
                    gu = uu._units
                else:
                    gf, uu = ureg.get_base_units(u, system=system)
                    gu = uu._units
            except Exception as e:
                raise Violation("C14.base", st["id"], {"form": form, "u": u, "system": system, "got": ["exc", exc_name(e)]})
            ef, eu = m.expected_base(u, system)
            if form in ("to_base", "ito_base"):
                ef = ef * float(frac(st["x"]))
            got = {k: float(gu[k]) for k in gu}
            self.col.checks += 1
            ok = core.num_close(float(gf), float(ef), 1e-9) and set(got) == set(eu) and all(abs(got[k] - eu[k]) < 1e-9 for k in got)
            self.col.trans("default", form, system, "ok" if ok else "bad")
            self.log.ev(st["id"], form, u, system, float(gf))
            if not ok:
                raise Violation("C14.base", st["id"], {"form": form, "x": st["x"], "u": u, "system": system,
                                                       "expected": [ef, sorted(eu.items())], "got": [float(gf), sorted(got.items())]})
            # idempotent; value conserved
            q2 = ureg.Quantity(gf, gu)
            if form == "get_base_sys":
                f3, u3 = ureg.get_base_units(gu, system=system)
                again = (gf * f3, u3._units)
            else:
                r3 = q2.to_base_units()
                again = (r3.magnitude, r3._units)
            self.col.checks += 1
            if not (core.num_close(float(again[0]), float(gf), 1e-9) and norm_units(again[1]) == norm_units(gu)):
                raise Violation("C14.base-idempotent", st["id"], {"form": form, "u": u, "system": system,
                                                                 "first": [float(gf), norm_units(gu)], "second": [float(again[0]), norm_units(again[1])]})
        self.check_members(ureg, m, "end")

    def check_members(self, ureg, m, why):
        for g in m.groups:
            self.col.checks += 1
            got = set(ureg.get_group(g, False).members)
            if got != m.members(g):
                raise Violation("C14.members", why, {"group": g, "when": why, "missing": sorted(m.members(g) - got)[:10],
                                                     "unexpected": sorted(got - m.members(g))[:10]})
        for sy in m.systems:
            self.col.checks += 1
            got = set(ureg.get_system(sy, False).members)
            if got != m.sys_members(sy):
                raise Violation("C14.sysmembers", why, {"system": sy, "when": why})
